// vt-replay {"property": "C28", "harness": "c28_tree_update_grow_nearly_full", "module": "c28u", "feat": "sp", "test": "manual_tree_update_grow_loses_entry", "failing_roles": ["c28_failed_update_leaves_tree_unchanged"], "native": {}}
/// Hand-written replay of the solver's counterexample class: root leaf with two 3-byte keys / 1-byte values and 5 free
/// bytes; BTree::update grows the first value from 1 to 3 bytes: the old cell is deleted, the re-insert does not fit,
/// update returns Err and the entry is gone.
#[test]
fn manual_tree_update_grow_loses_entry() {
    let mut concrete_vals: Vec<Vec<u8>> = Vec::new();
    for b in [1u8, 1, 1, 0, 0, 0, 7, 0, 0, 0] { concrete_vals.push(vec![b]); } // entry 0: key [1,1,1], value [7]
    for b in [2u8, 2, 2, 0, 0, 0, 8, 0, 0, 0] { concrete_vals.push(vec![b]); } // entry 1: key [2,2,2], value [8]
    for b in [9u8, 9, 9, 9] { concrete_vals.push(vec![b]); }                   // new value [9,9,9]
    kani::concrete_playback_run(concrete_vals, replay_tree_update_grow_free5);
}
