// vt-replay {"property": "C39", "harness": "c39_schedule_cross_pool", "module": "c39", "feat": "", "test": "c39_cross_pool_race_native", "failing_roles": ["total_usage_never_exceeds_limit_under_interleaving"], "native": {}}
/// Native demonstration of the schedule the model checker reports for c39_schedule_cross_pool: two real threads
/// allocate in two different pools at the same moment when only one of the two requests fits under the limit.
/// (Probabilistic by nature: many rounds with a barrier; fails as soon as total_used() > total_limit() is observed.)
#[test]
fn c39_cross_pool_race_native() {
    use std::sync::{Arc, Barrier};
    use turdb::memory::{MemoryBudget, Pool};
    let budget = Arc::new(MemoryBudget::with_limit(4 * 1024 * 1024));
    let limit = budget.total_limit();
    let each = 40 * 1024;
    for _round in 0..20000 {
        budget.reset();
        budget.allocate(Pool::Shared, limit - each - 1024).unwrap(); // room for exactly one more `each`
        let bar = Arc::new(Barrier::new(2));
        let (b1, b2, r1, r2) = (budget.clone(), budget.clone(), bar.clone(), bar.clone());
        let t1 = std::thread::spawn(move || { r1.wait(); b1.allocate(Pool::Cache, each).is_ok() });
        let t2 = std::thread::spawn(move || { r2.wait(); b2.allocate(Pool::Query, each).is_ok() });
        let (ok1, ok2) = (t1.join().unwrap(), t2.join().unwrap());
        let used = budget.total_used();
        assert!(used <= limit, "both allocations succeeded ({ok1}, {ok2}): total_used {used} > limit {limit}");
    }
}
