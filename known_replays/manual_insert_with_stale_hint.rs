// vt-replay {"property": "C28", "harness": "c28_insert_with_stale_hint", "module": "c28t", "feat": "sp", "test": "manual_insert_with_stale_hint", "failing_roles": ["c28_inserted_key_is_found_by_get"], "native": {}}
/// Hand-written replay of c28_insert_with_stale_hint's scenario: hint = page 2 (a leaf with right siblings), key [0x25,1].
#[test]
fn manual_insert_with_stale_hint() {
    let mut concrete_vals: Vec<Vec<u8>> = Vec::new();
    for b in [1u8, 2, 3, 4, 5, 6, 7] { concrete_vals.push(vec![b]); } // six existing values + the new value
    kani::concrete_playback_run(concrete_vals, replay_insert_with_stale_hint);
}
