// vt-replay {"property": "C28", "harness": "c28_cursor_scan_empty_middle_leaf", "module": "c28t", "feat": "sp", "test": "manual_cursor_empty_middle_leaf", "failing_roles": ["c28_cursor_enumerates_every_entry_across_leaves"], "native": {}}
/// Hand-written replay of the solver's counterexample class (na=2, nb=0, nc=1): leaf chain A(2 cells) -> B(empty) -> C(1 cell).
#[test]
fn manual_cursor_empty_middle_leaf() {
    let concrete_vals: Vec<Vec<u8>> = vec![vec![1], vec![2], vec![3], vec![4], vec![5], vec![6]];
    kani::concrete_playback_run(concrete_vals, replay_forward_scan_2_0_1);
}
