#!/bin/bash
# try_seed.sh <seed-name> <PROP> [vt args...] : apply a seeded change to /repo, run the check, undo.
n=$1; shift; prop=$1; shift
cd /repo && git diff --quiet || { echo "/repo dirty"; exit 9; }
pf=/verif/seeded/$n/patch.diff; [ -f /verif/seeded/$n/patch_rebased.diff ] && pf=/verif/seeded/$n/patch_rebased.diff
git -C /repo apply $pf || exit 8
cd /verif && ./vt check $prop "$@" ; rc=$?
git -C /repo checkout -- .
echo "try_seed $n $prop rc=$rc"
exit $rc
