#!/usr/bin/env python3
"""Regenerates the seed table of DESIGN.md section 0.5 from seeded/*/meta.json (descriptions kept here)."""
import json,glob,os,re
desc={
"C27-a":("`varint_len` / `encode_varint` share a 3-byte range limit that is one too large (67824 instead of 67823)","the single value 67824"),
"C26-b":("`encode_vector` sign test `is_sign_negative()` → `< 0.0`","a vector component exactly `-0.0`"),
"C34-b":("`create_new_trunk` no longer counts the new trunk page in `free_count`","more free pages than one trunk holds (second trunk)"),
"C11-a":("`parse_time` pads the fractional seconds on the left (`{:0>6}`)","TIME/TIMESTAMP literal with a 1..5 digit fraction"),
"C26-a":("`encode_float` zero test `f == 0.0` → `abs() < EPSILON`","positive float < 2.2e-16"),
"C28-a":("`update_cell_value_shrink` writes the value at the old varint width","shrink across 240/241 bytes"),
"C28-b":("`try_fastpath_insert` no longer re-checks `next_leaf == 0`","persisted hint gone stale"),
"C29-a":("interior `find_child` compares only `key[4..]` on a prefix tie","short keys with trailing NULs"),
"C29-b":("`split_leaf` size estimate drops `SLOT_SIZE`","large cell into a leaf of many small ones"),
"C30-a":("final binary search compares key tails after the 4-byte prefix","keys differing only by trailing NULs"),
"C31-a":("`get_var_bounds` mixes hi/lo bytes of two offset entries","2nd var column crossing a multiple of 256"),
"C33-a":("float zero test `< EPSILON` in RowSerde (rebased onto the fixed tree)","tiny floats"),
"C34-a":("`create_new_trunk` keeps the stale `count` of the released page","full trunk + used page"),
"C39-a":("reservation fast path skips the global check","one pool overflowed to the limit"),
"C41-a":("closed-form literal date converter with a century slip","Jan/Feb of non-leap century years"),
"C16-a":("group key drops the NULL marker","NULLs in different key positions"),
"C23-a":("FK trailer guard `pos + 2 <= len` → `pos < len` in the catalog decoder","truncation at one exact offset"),
"C20-a":("`LOCATE` mixes byte and char offsets","multi-byte prefix + 3-argument form"),
"C08-a":("rollback restores with `BTree::update` and ignores `Ok(false)`","shrinking UPDATE + full leaf + ROLLBACK"),
"C10-a":("CREATE INDEX back-fill stores key offsets in `u16`","> 64 KiB of index keys"),
"C15-a":("TopK drops rows tying with the boundary on the leading key","multi-key ORDER BY + LIMIT with ties"),
"C17-a":("FULL OUTER hash join drops left rows with NULL keys","FULL join + NULL left key"),
"C14-a":("BETWEEN combines its two comparisons with `Option::zip` (FALSE AND NULL becomes NULL)","NULL bound + value outside the other bound + NOT / NOT BETWEEN"),
"C14-b":("BETWEEN combines its two comparisons with `(Some(ge), Some(le)) => Some(ge && le), _ => None` (same effect as C14-a, written independently)","NULL bound + value outside the other bound + NOT / NOT BETWEEN / select list"),
"C32-a":("`JsonbView::get` compares keys bytewise with the length tie-break reversed","object keys in a proper-prefix relation (`id` / `id_type`)"),
}
why={
"C11-a":"literal parsing (`parse_time`, built on `format!`, which every harness stubs) is outside the TOAST-pointer kernel C11 claims",
"C29-b":"split_leaf (bump-arena vectors) did not terminate under CBMC even with concrete keys (25 min symex, harness removed)",
"C20-a":"string functions are outside the C20 claim: a probe harness on LOCATE with a concrete string timed out in `str::find`'s two-way searcher",
"C08-a":"whole transaction / undo path over real files; C08 is claimed at kernel level only",
"C10-a":"DDL back-fill over real tables; C10 is claimed for the key-agreement kernel only",
"C15-a":"the TopK executor (heap of `Vec<Value>` inside DynamicExecutor) is outside the comparator / LIMIT kernels",
"C17-a":"hand-written join path in `database.rs`; C17 is claimed for the key hash/equality kernel only",
}
rows=[]; det=0
for d in sorted(glob.glob('/verif/seeded/*/')):
    n=os.path.basename(d.rstrip('/')); m=json.load(open(d+'meta.json'))
    dd=m.get('detected_by')
    if dd: det+=1; who=', '.join(f"`{x['harness']}` ({x['roles'][0][:48]})" for x in dd[:3])
    else: who="**missed** — "+why.get(n,m.get('note',''))
    rows.append(f"| {n} | {desc[n][0]} | {desc[n][1]} | {who} |")
table="| seed | what it changes | needs | caught by (harness, first failing role) |\n|---|---|---|---|\n"+"\n".join(rows)
p='/verif/DESIGN.md'; s=open(p).read()
a=s.index("| seed | what it changes | needs | caught by"); b=s.index("(Generated from `seeded/*/meta.json`")
s=s[:a]+table+"\n\n"+s[b:]
s=re.sub(r"\d+ of \d+ caught, each with a native replay", f"{det} of {len(rows)} caught, each with a native replay", s)
open(p,'w').write(s); print(det,len(rows))
