#!/usr/bin/env python3
"""Prints the seeded-change table (markdown) from seeded/*/meta.json."""
import json, glob, os
rows = []
for d in sorted(glob.glob('/verif/seeded/*/')):
    n = os.path.basename(d.rstrip('/'))
    m = json.load(open(d + 'meta.json'))
    det = m.get('detected_by')
    if det:
        who = ', '.join(f"`{x['harness']}` ({'/'.join(r[:40] for r in x['roles'][:2])})" for x in det)
    else:
        who = '**not detected** (exit %s)' % m.get('check_exit_code')
    rows.append(f"| {n} | {who} |")
print("| seed | detected by (harness, first failing roles) |\n|---|---|")
print("\n".join(rows))
