#!/bin/bash
# mk_wt.sh <name> : scratch worktree of /repo HEAD at /tmp/wt/<name> with a warm copy of the build cache
set -e
n=$1
git -C /repo worktree add --detach /tmp/wt/$n HEAD >/dev/null 2>&1
cp -a /repo/target /tmp/wt/$n/target
mkdir -p /tmp/wt/$n-out
python3 - "$n" <<'P'
import json,sys
n=sys.argv[1]; pid=n.split('-')[0]
for l in open('/verif/properties.jsonl'):
    p=json.loads(l)
    if p['id']==pid:
        open(f'/tmp/wt/{n}-out/property.json','w').write(json.dumps(p,indent=1))
P
echo /tmp/wt/$n
