#!/bin/bash
# run_all.sh [tier] : run every check registered in MANIFEST.json (quick by default), one after another; summary at the end.
cd /verif; tier=${1:-quick}; out=/tmp/runall_$tier; mkdir -p $out
for p in $(python3 -c "import json;print(' '.join(c['property_id'] for c in json.load(open('MANIFEST.json'))['checks']))"); do
  [ -n "$2" ] && [[ " $2 " != *" $p "* ]] && continue
  s=$(date +%s); ./vt check $p --tier $tier > $out/$p.log 2>&1; rc=$?; e=$(date +%s)
  echo "$p rc=$rc $((e-s))s $(grep -c '^KNOWN-FINDING' $out/$p.log) known" | tee -a $out/summary.txt
done
