#!/bin/bash
# sweep_seeds3.sh : the two seeds of the last round (C14-a, C32-a) against the harnesses expected to catch them
cd /verif
run() { n=$1; prop=$2; shift; shift
  echo "=== $n ($prop) $*"
  tools/try_seed.sh $n $prop "$@" > /tmp/seed_$n.log 2>&1; rc=$?
  grep "^VIOLATION\|INCONCLUSIVE" /tmp/seed_$n.log | cut -c1-260; echo "rc=$rc"
  python3 - "$n" "$rc" "$*" <<'P'
import json,sys,re
n,rc,extra=sys.argv[1],int(sys.argv[2]),sys.argv[3]
log=open(f'/tmp/seed_{n}.log').read()
viol=re.findall(r"VIOLATION property=(\S+) replay=\S+\s+\(harness=(\S+) roles=([^)]*)\)",log)
m=json.load(open(f'/verif/seeded/{n}/meta.json'))
m['check_exit_code']=rc
m['detected_by']=[{"harness":h,"roles":r.split(',')} for _,h,r in viol] if rc==1 else None
m['check_cmd']=f"git -C /repo apply seeded/{n}/patch.diff; ./vt check {n.split('-')[0]} {extra}; git -C /repo checkout -- ."
m.pop('note',None)
if rc==0: m['note']="not detected by the registered check (exit 0): the change is outside the kernel this property's check claims, see DESIGN.md 0.5"
if rc==2: m['note']="check was inconclusive (exit 2) on this change, see DESIGN.md 0.5"
json.dump(m,open(f'/verif/seeded/{n}/meta.json','w'),indent=1)
P
}
cd /verif
run C14-a C14 --tier quick --only c14_between,c14_not_of_between,c14_in_list
run C32-a C32 --tier quick --only c32_view_object_prefix_keys,c32_view_object_4_keys
run C14-b C14 --tier quick --only c14_between,c14_not_of_between
