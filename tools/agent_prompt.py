#!/usr/bin/env python3
import sys, json
n = sys.argv[1]
prop = open(f"/tmp/wt/{n}-out/property.json").read()
extra = sys.argv[2] if len(sys.argv) > 2 else ""
print(f"""You are a mutation author for a robustness study of the Rust crate `turdb` (an embedded SQL database). You have your own scratch git worktree of the repository at /tmp/wt/{n} (already created, with a warm `target/` build cache). Work ONLY inside /tmp/wt/{n} and /tmp/wt/{n}-out. Never read, write or cd into /repo or /verif, and never commit anything. The sandbox is offline (use `cargo ... --offline`).

GOAL: write ONE realistic change to the turdb source (src/**) that BREAKS the semantic property below, while
  (a) the crate still compiles (lib and all tests),
  (b) the existing pinned test suite still passes: `python3 /tmp/wt/tools/baseline_check.py /tmp/wt/{n}` must print regressions=0 and exit 0 (takes ~3-5 min; it runs cargo nextest and compares against the pinned list of 668 stable tests),
  (c) the breakage is SUBTLE: it needs something specific to manifest — a particular input boundary or unusual value, a multi-step sequence of operations, a particular interleaving, a crash/fault at a particular point, or two cooperating sites that each look fine alone. A change that ordinary use or any simple smoke test would expose at once is NOT wanted. Think of the kind of bug a maintainer could plausibly introduce in a refactor or an optimisation (off-by-one at a size boundary, wrong comparison operator in a rare branch, a dropped special case, swapped order of two steps, stale cached value, wrong width of an integer, etc.). Do not add dead code or obviously malicious special-casing of magic constants.

PROPERTY (the only specification you get):
{prop}
{extra}
DELIVERABLES, all under /tmp/wt/{n}-out/ :
  1. patch.diff — `git -C /tmp/wt/{n} diff -- src > /tmp/wt/{n}-out/patch.diff` (changes to src/ only; must apply to a clean checkout with `git apply`).
  2. demo.rs — a self-contained Rust integration test file (it will be copied to tests/seeded_demo.rs of the crate and run with `cargo test --offline --test seeded_demo`) with one or more #[test] functions that use only the crate's public API, which PASS on the unchanged code and FAIL with your patch applied. It must be deterministic. Verify both directions yourself (stash/unstash your patch, e.g. `git apply -R` / `git apply`).
  3. notes.md — which property is broken, what exactly the change does, what is needed for it to manifest, and the exact commands you ran with their outcomes (baseline_check result, demo on clean tree, demo on patched tree).

Process advice: read the anchored source files first; pick the mutation; write the demo; run the demo with and without the patch; finally run baseline_check with the patch applied (if it reports regressions, choose a different/subtler mutation and repeat). Leave the worktree with your patch applied and tests/seeded_demo.rs present. Keep your final report short: the one-paragraph description of the mutation and whether (a),(b),(c) and both demo directions were confirmed.""")
