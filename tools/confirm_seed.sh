#!/bin/bash
# confirm_seed.sh <name>: independently confirm a sub-agent's seeded change in its scratch worktree,
# store it under /verif/seeded/<name>/ and remove the worktree.
n=$1; wt=/tmp/wt/$n; out=/tmp/wt/$n-out; dst=/verif/seeded/$n
export CARGO_NET_OFFLINE=true
mkdir -p $dst
cd $wt || exit 9
git checkout -q -- src 2>/dev/null; git status --short | grep -v "tests/seeded_demo.rs\|^??" 
cp $out/demo.rs tests/seeded_demo.rs
echo "== demo on clean tree"; cargo test --offline --test seeded_demo > $out/demo_clean.log 2>&1; c=$?
git apply $out/patch.diff || { echo "PATCH DOES NOT APPLY"; exit 8; }
echo "== demo on patched tree"; cargo test --offline --test seeded_demo > $out/demo_patched.log 2>&1; p=$?
echo "== baseline on patched tree"; rm -f tests/seeded_demo.rs; python3 /verif/tools/baseline_check.py $wt > $out/baseline.log 2>&1; b=$?
tail -3 $out/baseline.log
echo "clean_demo_rc=$c patched_demo_rc=$p baseline_rc=$b"
cp $out/patch.diff $out/demo.rs $out/notes.md $dst/ 2>/dev/null
python3 - "$n" "$c" "$p" "$b" <<'P'
import json,sys,re
n,c,p,b=sys.argv[1:]
notes=open(f'/tmp/wt/{n}-out/notes.md').read() if True else ''
meta={"name":n,"property":n.split('-')[0],"confirmed":{"demo_passes_on_clean_tree":c=="0","demo_fails_with_patch":p!="0","baseline_668_pass_with_patch":b=="0"},
 "ran":["cargo test --offline --test seeded_demo (clean tree)","git apply patch.diff; cargo test --offline --test seeded_demo","python3 /verif/tools/baseline_check.py <worktree> (cargo nextest, compared with BASELINE.json stable_pass)"],
 "needs_to_manifest":"see notes.md","detected_by":None}
json.dump(meta,open(f'/verif/seeded/{n}/meta.json','w'),indent=1)
P
cd /; /verif/tools/rm_wt.sh $n; rm -rf $out/*.log
