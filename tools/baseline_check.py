#!/usr/bin/env python3
"""baseline_check.py <repo-dir> — run the pinned test suite in <repo-dir> and compare with
/root/.vp/BASELINE.json: exit 0 iff every stable_pass test passes. Prints the regressions."""
import json, os, subprocess, sys, xml.etree.ElementTree as ET, re
d = sys.argv[1]
base = json.load(open("/root/.vp/BASELINE.json"))
stable = set(base["stable_pass"])
env = dict(os.environ, CARGO_NET_OFFLINE="true")
cmd = ["cargo", "nextest", "run", "--workspace", "--no-fail-fast", "--tool-config-file", "pb:/w/lib/nextest.toml",
       "--profile", "pb", "--test-threads", "8", "--offline"] + sys.argv[2:]
r = subprocess.run(cmd, cwd=d, env=env, stdout=subprocess.PIPE, stderr=subprocess.STDOUT, text=True)
junit = os.path.join(d, "target", "nextest", "pb", "junit.xml")
if not os.path.exists(junit):
    print(r.stdout[-4000:]); print("NO JUNIT (build failed?)"); sys.exit(3)
passed, failed = set(), set()
for tc in ET.parse(junit).getroot().iter("testcase"):
    cls = tc.get("classname", ""); name = tc.get("name", "")
    # nextest classname = "turdb" or "turdb::integration_sql"; name = "mod::test"
    full = f"{cls}::{name}" if cls else name
    bad = any(ch.tag in ("failure", "error") for ch in tc)
    (failed if bad else passed).add(full)
miss = sorted(t for t in stable if t not in passed)
print(f"stable_pass={len(stable)} passed_now={len(passed & stable)} regressions={len(miss)}")
for t in miss[:40]:
    print("  REGRESSION", t, "(failed)" if t in failed else "(not run)")
sys.exit(0 if not miss else 1)
