#!/bin/bash
# sweep_seeds.sh : run each seeded change against the check of its property (quick tier), record the outcome.
cd /verif
for d in seeded/*/; do
  n=$(basename $d); prop=${n%%-*}
  [ -n "$1" ] && [[ "$n" != $1 ]] && continue
  echo "=== $n ($prop)"
  tools/try_seed.sh $n $prop > /tmp/seed_$n.log 2>&1; rc=$?
  grep "^VIOLATION\|INCONCLUSIVE\|KNOWN" /tmp/seed_$n.log | cut -c1-300
  echo "rc=$rc"
  python3 - "$n" "$rc" <<'P'
import json,sys,re
n,rc=sys.argv[1],int(sys.argv[2])
log=open(f'/tmp/seed_{n}.log').read()
viol=re.findall(r"VIOLATION property=(\S+) replay=\S+\s+\(harness=(\S+) roles=([^)]*)\)",log)
m=json.load(open(f'/verif/seeded/{n}/meta.json'))
m['check_exit_code']=rc
m['detected_by']=[{"harness":h,"roles":r.split(',')} for _,h,r in viol] if rc==1 else None
m['check_cmd']=f"tools/try_seed.sh {n} {n.split('-')[0]}  (git apply patch.diff; ./vt check <prop>; git checkout -- .)"
json.dump(m,open(f'/verif/seeded/{n}/meta.json','w'),indent=1)
P
done
