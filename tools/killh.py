#!/usr/bin/env python3
"""killh.py PROP : kill a running `vt check PROP` and its kani/cbmc children (never this process or its ancestors)."""
import os, sys, signal, subprocess
prop = sys.argv[1]
me = os.getpid(); anc = set()
p = me
while p > 1:
    anc.add(p)
    try: p = int(open(f"/proc/{p}/stat").read().split()[3])
    except Exception: break
out = subprocess.run(["ps", "-eo", "pid,args"], capture_output=True, text=True).stdout.splitlines()[1:]
mod = prop.lower()
for l in out:
    pid, args = l.strip().split(None, 1)
    pid = int(pid)
    if pid in anc: continue
    if (f"vt check {prop}" in args and "python" in args) or (f" {mod}::" in args and ("kani" in args or "cbmc" in args)) or (f"__{mod}" in args and "cbmc" in args):
        try: os.kill(pid, signal.SIGKILL); print("killed", pid, args[:60])
        except Exception as e: print(e)
