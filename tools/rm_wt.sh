#!/bin/bash
n=$1
git -C /repo worktree remove --force /tmp/wt/$n 2>/dev/null || rm -rf /tmp/wt/$n
git -C /repo worktree prune
