#!/bin/bash
# sweep_seeds2.sh : seeds against the harnesses expected to catch them (fast), or the full quick check where no
# harness is expected to (to confirm the miss). Records the outcome in seeded/<name>/meta.json.
cd /verif
run() { n=$1; prop=$2; shift; shift
  echo "=== $n ($prop) $*"
  tools/try_seed.sh $n $prop "$@" > /tmp/seed_$n.log 2>&1; rc=$?
  grep "^VIOLATION\|INCONCLUSIVE" /tmp/seed_$n.log | cut -c1-260; echo "rc=$rc"
  python3 - "$n" "$rc" "$*" <<'P'
import json,sys,re
n,rc,extra=sys.argv[1],int(sys.argv[2]),sys.argv[3]
log=open(f'/tmp/seed_{n}.log').read()
viol=re.findall(r"VIOLATION property=(\S+) replay=\S+\s+\(harness=(\S+) roles=([^)]*)\)",log)
m=json.load(open(f'/verif/seeded/{n}/meta.json'))
m['check_exit_code']=rc
m['detected_by']=[{"harness":h,"roles":r.split(',')} for _,h,r in viol] if rc==1 else None
m['check_cmd']=f"git -C /repo apply seeded/{n}/patch.diff; ./vt check {n.split('-')[0]} {extra}; git -C /repo checkout -- ."
m.pop('note',None)
if rc==0: m['note']="not detected by the registered check (exit 0): the change is outside the kernel this property's check claims, see DESIGN.md 0.5"
if rc==2: m['note']="check was inconclusive (exit 2) on this change, see DESIGN.md 0.5"
json.dump(m,open(f'/verif/seeded/{n}/meta.json','w'),indent=1)
P
}
run C28-a C28 --only c28_leaf_shrink_across_varint_width,c28_leaf_update
run C28-b C28 --only c28_insert_with_stale_hint
run C29-a C29 --only c29_interior_find_child
run C30-a C30 --only c30_find_key_scalar_6,c30_scalar_window_12
run C31-a C31
run C33-a C33 --only c33_rt_float,c33_rt_null_int
run C34-a C34
run C39-a C39 --only c39_sequential_history_3
run C41-a C41 --only c41_literal_converter_1900_2100,c41_validity_predicates
run C16-a C16 --only c16_group_key_null_positions
run C23-a C23 --only c23_catalog_constraint_decoder
run C26-a C26 --only c26_float_decode_roundtrip,c26_float_order_injective,c26_int_float_collision_only_zero
run C15-a C15
run C17-a C17
run C08-a C08
run C20-a C20
run C10-a C10
run C29-b C29 --only c28_leaf_insert_at_3cells,c28_leaf_insert_cell_findspec,c28_tree_insert_no_split,c29_interior_find_child
