// vt-replay {"property": "C29", "harness": "c29_interior_find_child", "module": "c28t", "feat": "sp", "test": "kani_concrete_playback_c29_interior_find_child_15762951672518027008", "failing_roles": ["c29_find_child_routes_by_separator_bounds"], "native": {"dev": "fails"}}
/// Test generated for harness `c28t::c29_interior_find_child` 
///
/// Check for `assertion`: ""role=c29_find_child_routes_by_separator_bounds""
///
/// # Warning
///
/// Concrete playback tests combined with stubs or contracts is highly
/// experimental, and subject to change.
///
/// The original harness has stubs which are not applied to this test.
/// This may cause a mismatch of non-deterministic values if the stub
/// creates any non-deterministic value.
/// The execution path may also differ, which can be used to refine the stub
/// logic.

#[test]
fn kani_concrete_playback_c29_interior_find_child_15762951672518027008() {
    let concrete_vals: Vec<Vec<u8>> = vec![
        // 0
        vec![0],
        // 0
        vec![0],
        // 255
        vec![255],
        // 255
        vec![255],
        // 255
        vec![255],
        // 255
        vec![255],
        // 255
        vec![255],
        // 255
        vec![255],
        // 255
        vec![255],
        // 255
        vec![255],
        // 0
        vec![0],
        // 0
        vec![0],
        // 0
        vec![0],
        // 0
        vec![0],
        // 58
        vec![58],
        // 255
        vec![255],
        // 255
        vec![255],
        // 255
        vec![255],
        // 255
        vec![255],
        // 255
        vec![255],
        // 253
        vec![253],
        // 130
        vec![130],
        // 50
        vec![50],
        // 255
        vec![255],
        // 255
        vec![255],
        // 255
        vec![255],
        // 255
        vec![255],
        // 255
        vec![255],
        // 255
        vec![255],
        // 255
        vec![255],
        // 186
        vec![186],
        // 215
        vec![215],
        // 2
        vec![2],
        // 0
        vec![0],
        // 63
        vec![63],
        // 0
        vec![0, 0, 0, 0, 0, 0, 0, 0],
    ];
    kani::concrete_playback_run(concrete_vals, c29_interior_find_child);
}
