// vt-replay {"property": "C28", "harness": "c28_leaf_shrink_across_varint_width", "module": "c28", "feat": "sp", "test": "kani_concrete_playback_c28_leaf_shrink_across_varint_width_13764022754778753999", "failing_roles": ["c28_get_returns_last_written_value"], "native": {"dev": "fails"}}
/// Test generated for harness `c28::c28_leaf_shrink_across_varint_width` 
///
/// Check for `assertion`: ""role=c28_get_returns_last_written_value""
///
/// # Warning
///
/// Concrete playback tests combined with stubs or contracts is highly
/// experimental, and subject to change.
///
/// The original harness has stubs which are not applied to this test.
/// This may cause a mismatch of non-deterministic values if the stub
/// creates any non-deterministic value.
/// The execution path may also differ, which can be used to refine the stub
/// logic.

#[test]
fn kani_concrete_playback_c28_leaf_shrink_across_varint_width_13764022754778753999() {
    let concrete_vals: Vec<Vec<u8>> = vec![
        // 100
        vec![100, 0, 0, 0, 0, 0, 0, 0],
        // 0
        vec![0],
        // 0
        vec![0],
        // 0
        vec![0],
        // 0
        vec![0],
        // 0
        vec![0],
        // 0
        vec![0],
        // 0
        vec![0],
    ];
    kani::concrete_playback_run(concrete_vals, c28_leaf_shrink_across_varint_width);
}
