// vt-replay {"property": "C32", "harness": "c32_view_object_prefix_keys", "module": "c32", "feat": "", "test": "kani_concrete_playback_c32_view_object_prefix_keys_16856108452002463464", "failing_roles": ["every_key_looks_up_to_its_value"], "native": {"dev": "fails"}}
/// Test generated for harness `c32::c32_view_object_prefix_keys` 
///
/// Check for `assertion`: ""role=every_key_looks_up_to_its_value""
///
/// # Warning
///
/// Concrete playback tests combined with stubs or contracts is highly
/// experimental, and subject to change.
///
/// The original harness has stubs which are not applied to this test.
/// This may cause a mismatch of non-deterministic values if the stub
/// creates any non-deterministic value.
/// The execution path may also differ, which can be used to refine the stub
/// logic.

#[test]
fn kani_concrete_playback_c32_view_object_prefix_keys_16856108452002463464() {
    let concrete_vals: Vec<Vec<u8>> = vec![
        // 120
        vec![120],
        // 127
        vec![127],
        // 122
        vec![122],
        // 119
        vec![119],
        // 0
        vec![0],
        // 0
        vec![0],
    ];
    kani::concrete_playback_run(concrete_vals, c32_view_object_prefix_keys);
}
