// vt-replay {"property": "C17", "harness": "c17_equal_keys_hash_equal_mixed", "module": "c15", "feat": "", "test": "kani_concrete_playback_c17_equal_keys_hash_equal_mixed_6836475204853261651", "failing_roles": ["equal_int_and_float_join_keys_hash_identically"], "native": {"dev": "fails"}}
/// Test generated for harness `c15::c17_equal_keys_hash_equal_mixed` 
///
/// Check for `assertion`: ""role=equal_int_and_float_join_keys_hash_identically""
///
/// # Warning
///
/// Concrete playback tests combined with stubs or contracts is highly
/// experimental, and subject to change.
///
/// The original harness has stubs which are not applied to this test.
/// This may cause a mismatch of non-deterministic values if the stub
/// creates any non-deterministic value.
/// The execution path may also differ, which can be used to refine the stub
/// logic.

#[test]
fn kani_concrete_playback_c17_equal_keys_hash_equal_mixed_6836475204853261651() {
    let concrete_vals: Vec<Vec<u8>> = vec![
        // -1729382256910270463
        vec![1, 0, 0, 0, 0, 0, 0, 232],
        // -1.729382e+18
        vec![0, 0, 0, 0, 0, 0, 184, 195],
    ];
    kani::concrete_playback_run(concrete_vals, c17_equal_keys_hash_equal_mixed);
}
