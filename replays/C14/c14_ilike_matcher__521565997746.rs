// vt-replay {"property": "C14", "harness": "c14_ilike_matcher", "module": "c14", "feat": "", "test": "kani_concrete_playback_c14_ilike_matcher_7659721521565997746", "failing_roles": ["ilike_matches_the_sql_definition"], "native": {"dev": "fails"}}
/// Test generated for harness `c14::c14_ilike_matcher` 
///
/// Check for `assertion`: ""role=ilike_matches_the_sql_definition""
///
/// # Warning
///
/// Concrete playback tests combined with stubs or contracts is highly
/// experimental, and subject to change.
///
/// The original harness has stubs which are not applied to this test.
/// This may cause a mismatch of non-deterministic values if the stub
/// creates any non-deterministic value.
/// The execution path may also differ, which can be used to refine the stub
/// logic.

#[test]
fn kani_concrete_playback_c14_ilike_matcher_7659721521565997746() {
    let concrete_vals: Vec<Vec<u8>> = vec![
        // 127
        vec![127],
        // 127
        vec![127],
        // 35
        vec![35],
        // 95
        vec![95],
        // 95
        vec![95],
        // 37
        vec![37],
        // 95
        vec![95],
        // 37
        vec![37],
        // 127
        vec![127],
        // 127
        vec![127],
        // 127
        vec![127],
        // 127
        vec![127],
        // 37
        vec![37],
        // 37
        vec![37],
        // 127
        vec![127],
        // 37
        vec![37],
        // 37
        vec![37],
        // 127
        vec![127],
        // 78
        vec![78],
        // 37
        vec![37],
        // 46
        vec![46],
        // 37
        vec![37],
        // 110
        vec![110],
        // 37
        vec![37],
    ];
    kani::concrete_playback_run(concrete_vals, c14_ilike_matcher);
}
