// vt-replay {"property": "C14", "harness": "c14_like_matcher", "module": "c14", "feat": "", "test": "kani_concrete_playback_c14_like_matcher_11358113158575751400", "failing_roles": ["like_matches_the_sql_definition"], "native": {"dev": "fails"}}
/// Test generated for harness `c14::c14_like_matcher` 
///
/// Check for `assertion`: ""role=like_matches_the_sql_definition""
///
/// # Warning
///
/// Concrete playback tests combined with stubs or contracts is highly
/// experimental, and subject to change.
///
/// The original harness has stubs which are not applied to this test.
/// This may cause a mismatch of non-deterministic values if the stub
/// creates any non-deterministic value.
/// The execution path may also differ, which can be used to refine the stub
/// logic.

#[test]
fn kani_concrete_playback_c14_like_matcher_11358113158575751400() {
    let concrete_vals: Vec<Vec<u8>> = vec![
        // 37
        vec![37],
        // 37
        vec![37],
        // 36
        vec![36],
        // 127
        vec![127],
        // 36
        vec![36],
        // 37
        vec![37],
        // 36
        vec![36],
        // 37
        vec![37],
        // 37
        vec![37],
        // 37
        vec![37],
        // 37
        vec![37],
        // 37
        vec![37],
        // 95
        vec![95],
    ];
    kani::concrete_playback_run(concrete_vals, c14_like_matcher);
}
