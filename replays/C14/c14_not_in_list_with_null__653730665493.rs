// vt-replay {"property": "C14", "harness": "c14_not_in_list_with_null", "module": "c14", "feat": "", "test": "kani_concrete_playback_c14_not_in_list_with_null_2848026653730665493", "failing_roles": ["in_list_row_returned_iff_true"], "native": {"dev": "fails"}}
/// Test generated for harness `c14::c14_not_in_list_with_null` 
///
/// Check for `assertion`: ""role=in_list_row_returned_iff_true""
///
/// # Warning
///
/// Concrete playback tests combined with stubs or contracts is highly
/// experimental, and subject to change.
///
/// The original harness has stubs which are not applied to this test.
/// This may cause a mismatch of non-deterministic values if the stub
/// creates any non-deterministic value.
/// The execution path may also differ, which can be used to refine the stub
/// logic.

#[test]
fn kani_concrete_playback_c14_not_in_list_with_null_2848026653730665493() {
    let concrete_vals: Vec<Vec<u8>> = vec![
        // 0
        vec![0, 0, 0, 0, 0, 0, 0, 0],
        // 0
        vec![0, 0, 0, 0, 0, 0, 0, 0],
        // 0
        vec![0, 0, 0, 0, 0, 0, 0, 0],
        // 0
        vec![0, 0, 0, 0, 0, 0, 0, 0],
        // 0
        vec![0, 0, 0, 0, 0, 0, 0, 0],
    ];
    kani::concrete_playback_run(concrete_vals, c14_not_in_list_with_null);
}
