// vt-replay {"property": "C14", "harness": "c14_not_of_between", "module": "c14", "feat": "", "test": "kani_concrete_playback_c14_not_of_between_15291299934188152548", "failing_roles": ["not_of_between_row_returned_iff_true"], "native": {"dev": "fails"}}
/// Test generated for harness `c14::c14_not_of_between` 
///
/// Check for `assertion`: ""role=not_of_between_row_returned_iff_true""
///
/// # Warning
///
/// Concrete playback tests combined with stubs or contracts is highly
/// experimental, and subject to change.
///
/// The original harness has stubs which are not applied to this test.
/// This may cause a mismatch of non-deterministic values if the stub
/// creates any non-deterministic value.
/// The execution path may also differ, which can be used to refine the stub
/// logic.

#[test]
fn kani_concrete_playback_c14_not_of_between_15291299934188152548() {
    let concrete_vals: Vec<Vec<u8>> = vec![
        // -9223372036854775808
        vec![0, 0, 0, 0, 0, 0, 0, 128],
        // -4611686018427387904
        vec![0, 0, 0, 0, 0, 0, 0, 192],
    ];
    kani::concrete_playback_run(concrete_vals, c14_not_of_between);
}
