// vt-replay {"property": "C14", "harness": "c14_cmp_null_null", "module": "c14", "feat": "", "test": "kani_concrete_playback_c14_cmp_null_null_13158146833632906982", "failing_roles": ["comparison_row_returned_iff_true"], "native": {"dev": "fails"}}
/// Test generated for harness `c14::c14_cmp_null_null` 
///
/// Check for `assertion`: ""role=comparison_row_returned_iff_true""
///
/// # Warning
///
/// Concrete playback tests combined with stubs or contracts is highly
/// experimental, and subject to change.
///
/// The original harness has stubs which are not applied to this test.
/// This may cause a mismatch of non-deterministic values if the stub
/// creates any non-deterministic value.
/// The execution path may also differ, which can be used to refine the stub
/// logic.

#[test]
fn kani_concrete_playback_c14_cmp_null_null_13158146833632906982() {
    let concrete_vals: Vec<Vec<u8>> = vec![
    ];
    kani::concrete_playback_run(concrete_vals, c14_cmp_null_null);
}
