// vt-replay {"property": "C16", "harness": "c16_group_key_null_positions", "module": "c16", "feat": "", "test": "kani_concrete_playback_c16_group_key_null_positions_8022957561881985977", "failing_roles": ["distinct_rows_get_distinct_groups"], "native": {"dev": "fails"}}
/// Test generated for harness `c16::c16_group_key_null_positions` 
///
/// Check for `assertion`: ""role=distinct_rows_get_distinct_groups""
///
/// # Warning
///
/// Concrete playback tests combined with stubs or contracts is highly
/// experimental, and subject to change.
///
/// The original harness has stubs which are not applied to this test.
/// This may cause a mismatch of non-deterministic values if the stub
/// creates any non-deterministic value.
/// The execution path may also differ, which can be used to refine the stub
/// logic.

#[test]
fn kani_concrete_playback_c16_group_key_null_positions_8022957561881985977() {
    let concrete_vals: Vec<Vec<u8>> = vec![
        // 9
        vec![9],
    ];
    kani::concrete_playback_run(concrete_vals, c16_group_key_null_positions);
}
