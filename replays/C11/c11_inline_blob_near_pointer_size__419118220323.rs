// vt-replay {"property": "C11", "harness": "c11_inline_blob_near_pointer_size", "module": "c11", "feat": "", "test": "kani_concrete_playback_c11_inline_blob_near_pointer_size_2069980419118220323", "failing_roles": ["inline_blob_reads_back_as_blob"], "native": {"dev": "fails"}}
/// Test generated for harness `c11::c11_inline_blob_near_pointer_size` 
///
/// Check for `assertion`: ""role=inline_blob_reads_back_as_blob""
///
/// # Warning
///
/// Concrete playback tests combined with stubs or contracts is highly
/// experimental, and subject to change.
///
/// The original harness has stubs which are not applied to this test.
/// This may cause a mismatch of non-deterministic values if the stub
/// creates any non-deterministic value.
/// The execution path may also differ, which can be used to refine the stub
/// logic.

#[test]
fn kani_concrete_playback_c11_inline_blob_near_pointer_size_2069980419118220323() {
    let concrete_vals: Vec<Vec<u8>> = vec![
        // 1
        vec![1],
        // 254
        vec![254],
        // 0
        vec![0],
        // 0
        vec![0],
        // 0
        vec![0],
        // 0
        vec![0],
        // 0
        vec![0],
        // 0
        vec![0],
        // 0
        vec![0],
        // 0
        vec![0],
        // 0
        vec![0],
        // 0
        vec![0],
        // 0
        vec![0],
        // 0
        vec![0],
        // 0
        vec![0],
        // 0
        vec![0],
        // 0
        vec![0],
        // 0
        vec![0],
    ];
    kani::concrete_playback_run(concrete_vals, c11_inline_blob_near_pointer_size);
}
