// vt-replay {"property": "C23", "harness": "c23_catalog_constraint_decoder", "module": "c23", "feat": "", "test": "kani_concrete_playback_c23_catalog_constraint_decoder_12302304706469300965", "failing_roles": ["panic:index_out_of_bounds_the_length_is_less_than_or_equal_to_the_@turdb::schema::persistence::CatalogPersistence::deserialize_constraint"], "native": {"dev": "fails"}}
/// Test generated for harness `c23::c23_catalog_constraint_decoder` 
///
/// Check for `assertion`: "index out of bounds: the length is less than or equal to the given index"
///
/// # Warning
///
/// Concrete playback tests combined with stubs or contracts is highly
/// experimental, and subject to change.
///
/// The original harness has stubs which are not applied to this test.
/// This may cause a mismatch of non-deterministic values if the stub
/// creates any non-deterministic value.
/// The execution path may also differ, which can be used to refine the stub
/// logic.

#[test]
fn kani_concrete_playback_c23_catalog_constraint_decoder_12302304706469300965() {
    let concrete_vals: Vec<Vec<u8>> = vec![
        // 3
        vec![3],
        // 1
        vec![1],
        // 0
        vec![0],
        // 106
        vec![106],
        // 0
        vec![0],
        // 0
        vec![0],
        // 1
        vec![1],
        // 0
        vec![0],
        // 76
        vec![76],
        // 7ul
        vec![7, 0, 0, 0, 0, 0, 0, 0],
    ];
    kani::concrete_playback_run(concrete_vals, c23_catalog_constraint_decoder);
}
