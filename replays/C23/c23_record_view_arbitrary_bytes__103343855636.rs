// vt-replay {"property": "C23", "harness": "c23_record_view_arbitrary_bytes", "module": "c23", "feat": "", "test": "kani_concrete_playback_c23_record_view_arbitrary_bytes_10434114103343855636", "failing_roles": ["panic:This_is_a_placeholder_message_Kani_doesnt_support_message_fo@core::slice::index::slice_index_fail::do_panic::runtime"], "native": {"dev": "fails"}}
/// Test generated for harness `c23::c23_record_view_arbitrary_bytes` 
///
/// Check for `assertion`: "This is a placeholder message; Kani doesn't support message formatted at runtime"
///
/// # Warning
///
/// Concrete playback tests combined with stubs or contracts is highly
/// experimental, and subject to change.
///
/// The original harness has stubs which are not applied to this test.
/// This may cause a mismatch of non-deterministic values if the stub
/// creates any non-deterministic value.
/// The execution path may also differ, which can be used to refine the stub
/// logic.

#[test]
fn kani_concrete_playback_c23_record_view_arbitrary_bytes_10434114103343855636() {
    let concrete_vals: Vec<Vec<u8>> = vec![
        // 4
        vec![4],
        // 0
        vec![0],
        // 195
        vec![195],
        // 251
        vec![251],
        // 63
        vec![63],
        // 195
        vec![195],
        // 195
        vec![195],
        // 195
        vec![195],
        // 195
        vec![195],
        // 2ul
        vec![2, 0, 0, 0, 0, 0, 0, 0],
    ];
    kani::concrete_playback_run(concrete_vals, c23_record_view_arbitrary_bytes);
}
