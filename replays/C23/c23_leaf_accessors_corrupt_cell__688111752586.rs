// vt-replay {"property": "C23", "harness": "c23_leaf_accessors_corrupt_cell", "module": "c23", "feat": "sp", "test": "kani_concrete_playback_c23_leaf_accessors_corrupt_cell_12241370688111752586", "failing_roles": ["panic:attempt_to_add_with_overflow@turdb::btree::LeafNode::<'_>::value_at", "panic:attempt_to_subtract_with_overflow@turdb::btree::LeafNodeMut::<'_>::free_space"], "native": {"dev": "fails"}}
/// Test generated for harness `c23::c23_leaf_accessors_corrupt_cell` 
///
/// Check for `assertion`: "attempt to add with overflow"
///
/// # Warning
///
/// Concrete playback tests combined with stubs or contracts is highly
/// experimental, and subject to change.
///
/// The original harness has stubs which are not applied to this test.
/// This may cause a mismatch of non-deterministic values if the stub
/// creates any non-deterministic value.
/// The execution path may also differ, which can be used to refine the stub
/// logic.

#[test]
fn kani_concrete_playback_c23_leaf_accessors_corrupt_cell_12241370688111752586() {
    let concrete_vals: Vec<Vec<u8>> = vec![
        // 255
        vec![255],
        // 255
        vec![255],
        // 255
        vec![255],
        // 255
        vec![255],
        // 255
        vec![255],
        // 255
        vec![255],
        // 255
        vec![255],
        // 255
        vec![255],
        // 255
        vec![255],
    ];
    kani::concrete_playback_run(concrete_vals, c23_leaf_accessors_corrupt_cell);
}
