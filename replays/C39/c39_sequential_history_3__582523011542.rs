// vt-replay {"property": "C39", "harness": "c39_sequential_history_3", "module": "c39", "feat": "", "test": "kani_concrete_playback_c39_sequential_history_3_18079074582523011542", "failing_roles": ["total_usage_never_exceeds_limit"], "native": {"dev": "fails"}}
/// Test generated for harness `c39::c39_sequential_history_3` 
///
/// Check for `assertion`: ""role=total_usage_never_exceeds_limit""
///
/// # Warning
///
/// Concrete playback tests combined with stubs or contracts is highly
/// experimental, and subject to change.
///
/// The original harness has stubs which are not applied to this test.
/// This may cause a mismatch of non-deterministic values if the stub
/// creates any non-deterministic value.
/// The execution path may also differ, which can be used to refine the stub
/// logic.

#[test]
fn kani_concrete_playback_c39_sequential_history_3_18079074582523011542() {
    let concrete_vals: Vec<Vec<u8>> = vec![
        // 4
        vec![4],
        // 4194304ul
        vec![0, 0, 64, 0, 0, 0, 0, 0],
        // 1
        vec![1],
        // 3
        vec![3],
        // 131072ul
        vec![0, 0, 2, 0, 0, 0, 0, 0],
        // 1
        vec![1],
    ];
    kani::concrete_playback_run(concrete_vals, c39_sequential_history_3);
}
