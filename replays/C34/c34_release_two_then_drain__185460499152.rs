// vt-replay {"property": "C34", "harness": "c34_release_two_then_drain", "module": "c34", "feat": "sp", "test": "kani_concrete_playback_c34_release_two_then_drain_1409410185460499152", "failing_roles": ["free_count_equals_pages_allocations_return"], "native": {"dev": "fails"}}
/// Test generated for harness `c34::c34_release_two_then_drain` 
///
/// Check for `assertion`: ""role=free_count_equals_pages_allocations_return""
///
/// # Warning
///
/// Concrete playback tests combined with stubs or contracts is highly
/// experimental, and subject to change.
///
/// The original harness has stubs which are not applied to this test.
/// This may cause a mismatch of non-deterministic values if the stub
/// creates any non-deterministic value.
/// The execution path may also differ, which can be used to refine the stub
/// logic.

#[test]
fn kani_concrete_playback_c34_release_two_then_drain_1409410185460499152() {
    let concrete_vals: Vec<Vec<u8>> = vec![
        // 255
        vec![255],
        // 255
        vec![255],
        // 255
        vec![255],
        // 255
        vec![255],
        // 255
        vec![255],
        // 255
        vec![255],
        // 255
        vec![255],
        // 255
        vec![255],
        // 255
        vec![255],
        // 255
        vec![255],
        // 255
        vec![255],
        // 255
        vec![255],
        // 255
        vec![255],
        // 255
        vec![255],
        // 255
        vec![255],
        // 255
        vec![255],
        // 255
        vec![255],
        // 255
        vec![255],
        // 255
        vec![255],
        // 255
        vec![255],
        // 255
        vec![255],
        // 255
        vec![255],
        // 255
        vec![255],
        // 255
        vec![255],
        // 255
        vec![255],
        // 255
        vec![255],
        // 255
        vec![255],
        // 255
        vec![255],
        // 255
        vec![255],
        // 255
        vec![255],
        // 255
        vec![255],
        // 255
        vec![255],
        // 1
        vec![1, 0, 0, 0],
        // 2
        vec![2, 0, 0, 0],
    ];
    kani::concrete_playback_run(concrete_vals, c34_release_two_then_drain);
}
