// vt-replay {"property": "C34", "harness": "c34_release_step_full_trunk", "module": "c34", "feat": "sp", "test": "kani_concrete_playback_c34_release_step_full_trunk_15786344236141433695", "failing_roles": ["new_trunk_starts_empty"], "native": {"dev": "fails"}}
/// Test generated for harness `c34::c34_release_step_full_trunk` 
///
/// Check for `assertion`: ""role=new_trunk_starts_empty""
///
/// # Warning
///
/// Concrete playback tests combined with stubs or contracts is highly
/// experimental, and subject to change.
///
/// The original harness has stubs which are not applied to this test.
/// This may cause a mismatch of non-deterministic values if the stub
/// creates any non-deterministic value.
/// The execution path may also differ, which can be used to refine the stub
/// logic.

#[test]
fn kani_concrete_playback_c34_release_step_full_trunk_15786344236141433695() {
    let concrete_vals: Vec<Vec<u8>> = vec![
        // 0
        vec![0],
        // 0
        vec![0],
        // 0
        vec![0],
        // 0
        vec![0],
        // 0
        vec![0],
        // 0
        vec![0],
        // 0
        vec![0],
        // 0
        vec![0],
        // 0
        vec![0],
        // 0
        vec![0],
        // 0
        vec![0],
        // 0
        vec![0],
        // 0
        vec![0],
        // 0
        vec![0],
        // 0
        vec![0],
        // 0
        vec![0],
        // 255
        vec![255],
        // 255
        vec![255],
        // 255
        vec![255],
        // 255
        vec![255],
        // 122
        vec![122],
        // 0
        vec![0],
        // 0
        vec![0],
        // 0
        vec![0],
        // 0
        vec![0],
        // 0
        vec![0],
        // 0
        vec![0],
        // 0
        vec![0],
        // 0
        vec![0],
        // 0
        vec![0],
        // 0
        vec![0],
        // 0
        vec![0],
        // 2147483647
        vec![255, 255, 255, 127],
    ];
    kani::concrete_playback_run(concrete_vals, c34_release_step_full_trunk);
}
