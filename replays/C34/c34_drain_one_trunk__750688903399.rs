// vt-replay {"property": "C34", "harness": "c34_drain_one_trunk", "module": "c34", "feat": "sp", "test": "kani_concrete_playback_c34_drain_one_trunk_14055433750688903399", "failing_roles": ["free_count_equals_pages_allocations_return"], "native": {"dev": "fails"}}
/// Test generated for harness `c34::c34_drain_one_trunk` 
///
/// Check for `assertion`: ""role=free_count_equals_pages_allocations_return""
///
/// # Warning
///
/// Concrete playback tests combined with stubs or contracts is highly
/// experimental, and subject to change.
///
/// The original harness has stubs which are not applied to this test.
/// This may cause a mismatch of non-deterministic values if the stub
/// creates any non-deterministic value.
/// The execution path may also differ, which can be used to refine the stub
/// logic.

#[test]
fn kani_concrete_playback_c34_drain_one_trunk_14055433750688903399() {
    let concrete_vals: Vec<Vec<u8>> = vec![
        // 0ul
        vec![0, 0, 0, 0, 0, 0, 0, 0],
        // 255
        vec![255],
        // 255
        vec![255],
        // 255
        vec![255],
        // 255
        vec![255],
        // 255
        vec![255],
        // 255
        vec![255],
        // 255
        vec![255],
        // 255
        vec![255],
        // 255
        vec![255],
        // 255
        vec![255],
        // 255
        vec![255],
        // 255
        vec![255],
        // 255
        vec![255],
        // 255
        vec![255],
        // 255
        vec![255],
        // 255
        vec![255],
        // 255
        vec![255],
        // 255
        vec![255],
        // 255
        vec![255],
        // 255
        vec![255],
        // 255
        vec![255],
        // 255
        vec![255],
        // 255
        vec![255],
        // 255
        vec![255],
        // 255
        vec![255],
        // 255
        vec![255],
        // 255
        vec![255],
        // 255
        vec![255],
        // 255
        vec![255],
        // 255
        vec![255],
        // 255
        vec![255],
        // 255
        vec![255],
        // 4294967295
        vec![255, 255, 255, 255],
        // 2147483647
        vec![255, 255, 255, 127],
        // 3221225471
        vec![255, 255, 255, 191],
        // 1073741823
        vec![255, 255, 255, 63],
    ];
    kani::concrete_playback_run(concrete_vals, c34_drain_one_trunk);
}
