// vt-replay {"property": "C41", "harness": "c41_literal_converter_1900_2100", "module": "c41", "feat": "", "test": "kani_concrete_playback_c41_literal_converter_1900_2100_10452000692290810378", "failing_roles": ["literal_converter_matches_gregorian"], "native": {"dev": "fails"}}
/// Test generated for harness `c41::c41_literal_converter_1900_2100` 
///
/// Check for `assertion`: ""role=literal_converter_matches_gregorian""
///
/// # Warning
///
/// Concrete playback tests combined with stubs or contracts is highly
/// experimental, and subject to change.
///
/// The original harness has stubs which are not applied to this test.
/// This may cause a mismatch of non-deterministic values if the stub
/// creates any non-deterministic value.
/// The execution path may also differ, which can be used to refine the stub
/// logic.

#[test]
fn kani_concrete_playback_c41_literal_converter_1900_2100_10452000692290810378() {
    let concrete_vals: Vec<Vec<u8>> = vec![
        // 2100
        vec![52, 8, 0, 0],
        // 2
        vec![2, 0, 0, 0],
        // 1
        vec![1, 0, 0, 0],
    ];
    kani::concrete_playback_run(concrete_vals, c41_literal_converter_1900_2100);
}
