// vt-replay {"property": "C10", "harness": "c10_probe_key_scalars", "module": "c10", "feat": "", "test": "kani_concrete_playback_c10_probe_key_scalars_9894034249096551661", "failing_roles": ["index_probe_key_equals_stored_key"], "native": {"dev": "fails"}}
/// Test generated for harness `c10::c10_probe_key_scalars` 
///
/// Check for `assertion`: ""role=index_probe_key_equals_stored_key""
///
/// # Warning
///
/// Concrete playback tests combined with stubs or contracts is highly
/// experimental, and subject to change.
///
/// The original harness has stubs which are not applied to this test.
/// This may cause a mismatch of non-deterministic values if the stub
/// creates any non-deterministic value.
/// The execution path may also differ, which can be used to refine the stub
/// logic.

#[test]
fn kani_concrete_playback_c10_probe_key_scalars_9894034249096551661() {
    let concrete_vals: Vec<Vec<u8>> = vec![
        // 0
        vec![0],
    ];
    kani::concrete_playback_run(concrete_vals, c10_probe_key_scalars);
}
