// vt-replay {"property": "C30", "harness": "c30_avx2_window_12", "module": "c30", "feat": "sp", "test": "kani_concrete_playback_c30_avx2_window_12_3022176284715648522", "failing_roles": ["window_excludes_only_greater_on_the_right"], "native": {"dev": "fails"}}
/// Test generated for harness `c30::c30_avx2_window_12` 
///
/// Check for `assertion`: ""role=window_excludes_only_greater_on_the_right""
///
/// # Warning
///
/// Concrete playback tests combined with stubs or contracts is highly
/// experimental, and subject to change.
///
/// The original harness has stubs which are not applied to this test.
/// This may cause a mismatch of non-deterministic values if the stub
/// creates any non-deterministic value.
/// The execution path may also differ, which can be used to refine the stub
/// logic.

#[test]
fn kani_concrete_playback_c30_avx2_window_12_3022176284715648522() {
    let concrete_vals: Vec<Vec<u8>> = vec![
        // 0
        vec![0, 0, 0, 0],
        // 0
        vec![0, 0, 0, 0],
        // 0
        vec![0, 0, 0, 0],
        // 0
        vec![0, 0, 0, 0],
        // 0
        vec![0, 0, 0, 0],
        // 0
        vec![0, 0, 0, 0],
        // 0
        vec![0, 0, 0, 0],
        // 3
        vec![3, 0, 0, 0],
        // 3
        vec![3, 0, 0, 0],
        // 2147483648
        vec![0, 0, 0, 128],
        // 0
        vec![0, 0, 0, 0],
        // 2147483648
        vec![0, 0, 0, 128],
        // 9ul
        vec![9, 0, 0, 0, 0, 0, 0, 0],
        // 3
        vec![3, 0, 0, 0],
    ];
    kani::concrete_playback_run(concrete_vals, c30_avx2_window_12);
}
