// vt-replay {"property": "C30", "harness": "c30_find_key_scalar_6", "module": "c30", "feat": "sp", "test": "kani_concrete_playback_c30_find_key_scalar_6_6258390922914897281", "failing_roles": ["find_key_equals_linear_scan"], "native": {"dev": "fails"}}
/// Test generated for harness `c30::c30_find_key_scalar_6` 
///
/// Check for `assertion`: ""role=find_key_equals_linear_scan""
///
/// # Warning
///
/// Concrete playback tests combined with stubs or contracts is highly
/// experimental, and subject to change.
///
/// The original harness has stubs which are not applied to this test.
/// This may cause a mismatch of non-deterministic values if the stub
/// creates any non-deterministic value.
/// The execution path may also differ, which can be used to refine the stub
/// logic.

#[test]
fn kani_concrete_playback_c30_find_key_scalar_6_6258390922914897281() {
    let concrete_vals: Vec<Vec<u8>> = vec![
        // 255
        vec![255],
        // 0
        vec![0],
        // 0
        vec![0],
        // 3ul
        vec![3, 0, 0, 0, 0, 0, 0, 0],
        // 190
        vec![190],
        // 0ul
        vec![0, 0, 0, 0, 0, 0, 0, 0],
        // 255
        vec![255],
        // 254
        vec![254],
        // 252
        vec![252],
        // 2ul
        vec![2, 0, 0, 0, 0, 0, 0, 0],
        // 191
        vec![191],
        // 0ul
        vec![0, 0, 0, 0, 0, 0, 0, 0],
        // 255
        vec![255],
        // 255
        vec![255],
        // 253
        vec![253],
        // 3ul
        vec![3, 0, 0, 0, 0, 0, 0, 0],
        // 254
        vec![254],
        // 0ul
        vec![0, 0, 0, 0, 0, 0, 0, 0],
        // 255
        vec![255],
        // 255
        vec![255],
        // 254
        vec![254],
        // 3ul
        vec![3, 0, 0, 0, 0, 0, 0, 0],
        // 255
        vec![255],
        // 0ul
        vec![0, 0, 0, 0, 0, 0, 0, 0],
        // 255
        vec![255],
        // 255
        vec![255],
        // 255
        vec![255],
        // 3ul
        vec![3, 0, 0, 0, 0, 0, 0, 0],
        // 254
        vec![254],
        // 0ul
        vec![0, 0, 0, 0, 0, 0, 0, 0],
        // 254
        vec![254],
        // 254
        vec![254],
        // 254
        vec![254],
        // 3ul
        vec![3, 0, 0, 0, 0, 0, 0, 0],
        // 255
        vec![255],
        // 0ul
        vec![0, 0, 0, 0, 0, 0, 0, 0],
        // 5ul
        vec![5, 0, 0, 0, 0, 0, 0, 0],
        // 255
        vec![255],
        // 255
        vec![255],
        // 255
        vec![255],
        // 1ul
        vec![1, 0, 0, 0, 0, 0, 0, 0],
    ];
    kani::concrete_playback_run(concrete_vals, c30_find_key_scalar_6);
}
