// vt-replay {"property": "C33", "harness": "c33_rt_float", "module": "c33", "feat": "", "test": "kani_concrete_playback_c33_rt_float_16904870735200814106", "failing_roles": ["row_size_equals_bytes_written", "value_equal", "variant_and_bits_equal"], "native": {"dev": "fails"}}
/// Test generated for harness `c33::c33_rt_float` 
///
/// Check for `assertion`: ""role=row_size_equals_bytes_written""
///
/// # Warning
///
/// Concrete playback tests combined with stubs or contracts is highly
/// experimental, and subject to change.
///
/// The original harness has stubs which are not applied to this test.
/// This may cause a mismatch of non-deterministic values if the stub
/// creates any non-deterministic value.
/// The execution path may also differ, which can be used to refine the stub
/// logic.

#[test]
fn kani_concrete_playback_c33_rt_float_16904870735200814106() {
    let concrete_vals: Vec<Vec<u8>> = vec![
        // -1.009742e-28
        vec![255, 255, 255, 255, 255, 255, 31, 186],
    ];
    kani::concrete_playback_run(concrete_vals, c33_rt_float);
}
