// vt-replay {"property": "C27", "harness": "c27_encode_decode_all_u64", "module": "c27", "feat": "", "test": "kani_concrete_playback_c27_encode_decode_all_u64_9829765753272018818", "failing_roles": ["encode_returns_varint_len"], "native": {"dev": "fails", "release": "error"}}
/// Test generated for harness `c27::c27_encode_decode_all_u64` 
///
/// Check for `assertion`: ""role=encode_returns_varint_len""
///
/// # Warning
///
/// Concrete playback tests combined with stubs or contracts is highly
/// experimental, and subject to change.
///
/// The original harness has stubs which are not applied to this test.
/// This may cause a mismatch of non-deterministic values if the stub
/// creates any non-deterministic value.
/// The execution path may also differ, which can be used to refine the stub
/// logic.

#[test]
fn kani_concrete_playback_c27_encode_decode_all_u64_9829765753272018818() {
    let concrete_vals: Vec<Vec<u8>> = vec![
        // 2288ul
        vec![240, 8, 0, 0, 0, 0, 0, 0],
        // 6
        vec![6],
        // 255
        vec![255],
        // 255
        vec![255],
        // 0
        vec![0],
        // 1
        vec![1],
        // 0
        vec![0],
        // 0
        vec![0],
        // 0
        vec![0],
        // 63
        vec![63],
        // 255
        vec![255],
    ];
    kani::concrete_playback_run(concrete_vals, c27_encode_decode_all_u64);
}
