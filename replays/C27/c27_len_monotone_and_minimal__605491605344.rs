// vt-replay {"property": "C27", "harness": "c27_len_monotone_and_minimal", "module": "c27", "feat": "", "test": "kani_concrete_playback_c27_len_monotone_and_minimal_11653734605491605344", "failing_roles": ["len_fits"], "native": {"dev": "fails", "release": "error"}}
/// Test generated for harness `c27::c27_len_monotone_and_minimal` 
///
/// Check for `assertion`: ""role=len_fits""
///
/// # Warning
///
/// Concrete playback tests combined with stubs or contracts is highly
/// experimental, and subject to change.
///
/// The original harness has stubs which are not applied to this test.
/// This may cause a mismatch of non-deterministic values if the stub
/// creates any non-deterministic value.
/// The execution path may also differ, which can be used to refine the stub
/// logic.

#[test]
fn kani_concrete_playback_c27_len_monotone_and_minimal_11653734605491605344() {
    let concrete_vals: Vec<Vec<u8>> = vec![
        // 2288ul
        vec![240, 8, 0, 0, 0, 0, 0, 0],
        // 2272ul
        vec![224, 8, 0, 0, 0, 0, 0, 0],
    ];
    kani::concrete_playback_run(concrete_vals, c27_len_monotone_and_minimal);
}
