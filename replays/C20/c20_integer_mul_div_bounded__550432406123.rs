// vt-replay {"property": "C20", "harness": "c20_integer_mul_div_bounded", "module": "c20", "feat": "", "test": "kani_concrete_playback_c20_integer_mul_div_bounded_13651847550432406123", "failing_roles": ["panic:attempt_to_divide_with_overflow@<i64 as std::ops::Div>::div", "panic:attempt_to_multiply_with_overflow@<i64 as std::ops::Mul>::mul"], "native": {"dev": "fails"}}
/// Test generated for harness `c20::c20_integer_mul_div_bounded` 
///
/// Check for `assertion`: "attempt to multiply with overflow"
///
/// # Warning
///
/// Concrete playback tests combined with stubs or contracts is highly
/// experimental, and subject to change.
///
/// The original harness has stubs which are not applied to this test.
/// This may cause a mismatch of non-deterministic values if the stub
/// creates any non-deterministic value.
/// The execution path may also differ, which can be used to refine the stub
/// logic.

#[test]
fn kani_concrete_playback_c20_integer_mul_div_bounded_13651847550432406123() {
    let concrete_vals: Vec<Vec<u8>> = vec![
        // -9223372036854775808
        vec![0, 0, 0, 0, 0, 0, 0, 128],
        // -1
        vec![255, 255, 255, 255, 255, 255, 255, 255],
        // 1
        vec![1],
    ];
    kani::concrete_playback_run(concrete_vals, c20_integer_mul_div_bounded);
}
