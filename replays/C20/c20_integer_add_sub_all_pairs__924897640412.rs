// vt-replay {"property": "C20", "harness": "c20_integer_add_sub_all_pairs", "module": "c20", "feat": "", "test": "kani_concrete_playback_c20_integer_add_sub_all_pairs_14736722924897640412", "failing_roles": ["panic:attempt_to_add_with_overflow@<i64 as std::ops::Add>::add", "panic:attempt_to_subtract_with_overflow@<i64 as std::ops::Sub>::sub"], "native": {"dev": "fails"}}
/// Test generated for harness `c20::c20_integer_add_sub_all_pairs` 
///
/// Check for `assertion`: "attempt to add with overflow"
///
/// # Warning
///
/// Concrete playback tests combined with stubs or contracts is highly
/// experimental, and subject to change.
///
/// The original harness has stubs which are not applied to this test.
/// This may cause a mismatch of non-deterministic values if the stub
/// creates any non-deterministic value.
/// The execution path may also differ, which can be used to refine the stub
/// logic.

#[test]
fn kani_concrete_playback_c20_integer_add_sub_all_pairs_14736722924897640412() {
    let concrete_vals: Vec<Vec<u8>> = vec![
        // 9223372036854775807
        vec![255, 255, 255, 255, 255, 255, 255, 127],
        // 9223372036854775807
        vec![255, 255, 255, 255, 255, 255, 255, 127],
        // 1
        vec![1],
    ];
    kani::concrete_playback_run(concrete_vals, c20_integer_add_sub_all_pairs);
}
