// vt-replay {"property": "C26", "harness": "c26_composite_two_columns", "module": "c26", "feat": "", "test": "kani_concrete_playback_c26_composite_two_columns_45935486696898995", "failing_roles": ["composite_columnwise_order"], "native": {"dev": "passes", "release": "passes"}}
/// Test generated for harness `c26::c26_composite_two_columns` 
///
/// Check for `cover`: "w:first_column_is_prefix_of_other"
///
/// # Warning
///
/// Concrete playback tests combined with stubs or contracts is highly
/// experimental, and subject to change.
///
/// The original harness has stubs which are not applied to this test.
/// This may cause a mismatch of non-deterministic values if the stub
/// creates any non-deterministic value.
/// The execution path may also differ, which can be used to refine the stub
/// logic.

#[test]
fn kani_concrete_playback_c26_composite_two_columns_45935486696898995() {
    let concrete_vals: Vec<Vec<u8>> = vec![
        // 0
        vec![0],
        // 5207381567963137
        vec![1, 128, 145, 0, 22, 128, 18, 0],
        // -9217178962449334272
        vec![0, 0, 1, 128, 145, 0, 22, 128],
        // 255
        vec![255],
        // 0
        vec![0],
        // 255
        vec![255],
        // 0
        vec![0],
        // 1ul
        vec![1, 0, 0, 0, 0, 0, 0, 0],
        // 2ul
        vec![2, 0, 0, 0, 0, 0, 0, 0],
    ];
    kani::concrete_playback_run(concrete_vals, c26_composite_two_columns);
}
