// vt-replay {"property": "C26", "harness": "c26_json_scalar_order_roundtrip", "module": "c26", "feat": "", "test": "kani_concrete_playback_c26_json_scalar_order_roundtrip_845653739022397068", "failing_roles": ["json_number_order_preserved", "json_number_roundtrip_bits"], "native": {"dev": "fails"}}
/// Test generated for harness `c26::c26_json_scalar_order_roundtrip` 
///
/// Check for `assertion`: ""role=json_number_order_preserved""
///
/// # Warning
///
/// Concrete playback tests combined with stubs or contracts is highly
/// experimental, and subject to change.
///
/// The original harness has stubs which are not applied to this test.
/// This may cause a mismatch of non-deterministic values if the stub
/// creates any non-deterministic value.
/// The execution path may also differ, which can be used to refine the stub
/// logic.

#[test]
fn kani_concrete_playback_c26_json_scalar_order_roundtrip_845653739022397068() {
    let concrete_vals: Vec<Vec<u8>> = vec![
        // -3.121749e+144
        vec![0, 0, 0, 0, 0, 0, 240, 221],
        // -0
        vec![0, 0, 0, 0, 0, 0, 0, 128],
    ];
    kani::concrete_playback_run(concrete_vals, c26_json_scalar_order_roundtrip);
}
