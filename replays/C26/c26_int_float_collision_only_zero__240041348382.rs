// vt-replay {"property": "C26", "harness": "c26_int_float_collision_only_zero", "module": "c26", "feat": "", "test": "kani_concrete_playback_c26_int_float_collision_only_zero_12384623240041348382", "failing_roles": ["int_float_collide_only_at_zero"], "native": {"dev": "fails"}}
/// Test generated for harness `c26::c26_int_float_collision_only_zero` 
///
/// Check for `assertion`: ""role=int_float_collide_only_at_zero""
///
/// # Warning
///
/// Concrete playback tests combined with stubs or contracts is highly
/// experimental, and subject to change.
///
/// The original harness has stubs which are not applied to this test.
/// This may cause a mismatch of non-deterministic values if the stub
/// creates any non-deterministic value.
/// The execution path may also differ, which can be used to refine the stub
/// logic.

#[test]
fn kani_concrete_playback_c26_int_float_collision_only_zero_12384623240041348382() {
    let concrete_vals: Vec<Vec<u8>> = vec![
        // 0
        vec![0, 0, 0, 0, 0, 0, 0, 0],
        // 1.491668e-154
        vec![255, 255, 255, 255, 255, 255, 255, 31],
    ];
    kani::concrete_playback_run(concrete_vals, c26_int_float_collision_only_zero);
}
