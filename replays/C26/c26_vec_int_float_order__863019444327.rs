// vt-replay {"property": "C26", "harness": "c26_vec_int_float_order", "module": "c26", "feat": "", "test": "kani_concrete_playback_c26_vec_int_float_order_8271249863019444327", "failing_roles": ["vec_float_order_preserved"], "native": {"dev": "fails"}}
/// Test generated for harness `c26::c26_vec_int_float_order` 
///
/// Check for `assertion`: ""role=vec_float_order_preserved""
///
/// # Warning
///
/// Concrete playback tests combined with stubs or contracts is highly
/// experimental, and subject to change.
///
/// The original harness has stubs which are not applied to this test.
/// This may cause a mismatch of non-deterministic values if the stub
/// creates any non-deterministic value.
/// The execution path may also differ, which can be used to refine the stub
/// logic.

#[test]
fn kani_concrete_playback_c26_vec_int_float_order_8271249863019444327() {
    let concrete_vals: Vec<Vec<u8>> = vec![
        // 4468100794939604481
        vec![1, 254, 3, 255, 255, 225, 1, 62],
        // 4468099139179380480
        vec![0, 255, 3, 124, 126, 224, 1, 62],
        // -0
        vec![0, 0, 0, 0, 0, 0, 0, 128],
        // 2.225074e-308
        vec![0, 0, 0, 0, 0, 0, 16, 0],
    ];
    kani::concrete_playback_run(concrete_vals, c26_vec_int_float_order);
}
