// vt-replay {"property": "C26", "harness": "c26_composite_two_columns", "module": "c26", "feat": "", "test": "kani_concrete_playback_c26_composite_two_columns_12463081822051130957", "failing_roles": ["composite_columnwise_order"], "native": {"dev": "fails"}}
/// Test generated for harness `c26::c26_composite_two_columns` 
///
/// Check for `assertion`: ""role=composite_columnwise_order""
///
/// # Warning
///
/// Concrete playback tests combined with stubs or contracts is highly
/// experimental, and subject to change.
///
/// The original harness has stubs which are not applied to this test.
/// This may cause a mismatch of non-deterministic values if the stub
/// creates any non-deterministic value.
/// The execution path may also differ, which can be used to refine the stub
/// logic.

#[test]
fn kani_concrete_playback_c26_composite_two_columns_12463081822051130957() {
    let concrete_vals: Vec<Vec<u8>> = vec![
        // 2
        vec![2],
        // -4665802881218183168
        vec![0, 0, 255, 0, 0, 189, 63, 191],
        // 2340739309272825856
        vec![0, 0, 0, 1, 0, 250, 123, 32],
        // 4.940656e-324
        vec![1, 0, 0, 0, 0, 0, 0, 0],
        // -0
        vec![0, 0, 0, 0, 0, 0, 0, 128],
    ];
    kani::concrete_playback_run(concrete_vals, c26_composite_two_columns);
}
