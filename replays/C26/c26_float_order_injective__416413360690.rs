// vt-replay {"property": "C26", "harness": "c26_float_order_injective", "module": "c26", "feat": "", "test": "kani_concrete_playback_c26_float_order_injective_9656148416413360690", "failing_roles": ["float_order_preserved"], "native": {"dev": "fails"}}
/// Test generated for harness `c26::c26_float_order_injective` 
///
/// Check for `assertion`: ""role=float_order_preserved""
///
/// # Warning
///
/// Concrete playback tests combined with stubs or contracts is highly
/// experimental, and subject to change.
///
/// The original harness has stubs which are not applied to this test.
/// This may cause a mismatch of non-deterministic values if the stub
/// creates any non-deterministic value.
/// The execution path may also differ, which can be used to refine the stub
/// logic.

#[test]
fn kani_concrete_playback_c26_float_order_injective_9656148416413360690() {
    let concrete_vals: Vec<Vec<u8>> = vec![
        // -0
        vec![0, 0, 0, 0, 0, 0, 0, 128],
        // 5.075884e-116
        vec![0, 0, 0, 0, 0, 0, 0, 40],
    ];
    kani::concrete_playback_run(concrete_vals, c26_float_order_injective);
}
