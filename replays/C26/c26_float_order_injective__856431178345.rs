// vt-replay {"property": "C26", "harness": "c26_float_order_injective", "module": "c26", "feat": "", "test": "kani_concrete_playback_c26_float_order_injective_17895913856431178345", "failing_roles": ["float_order_preserved"], "native": {"dev": "passes", "release": "passes"}}
/// Test generated for harness `c26::c26_float_order_injective` 
///
/// Check for `cover`: "w:neg_zero_vs_pos_zero"
///
/// # Warning
///
/// Concrete playback tests combined with stubs or contracts is highly
/// experimental, and subject to change.
///
/// The original harness has stubs which are not applied to this test.
/// This may cause a mismatch of non-deterministic values if the stub
/// creates any non-deterministic value.
/// The execution path may also differ, which can be used to refine the stub
/// logic.

#[test]
fn kani_concrete_playback_c26_float_order_injective_17895913856431178345() {
    let concrete_vals: Vec<Vec<u8>> = vec![
        // -0
        vec![0, 0, 0, 0, 0, 0, 0, 128],
        // 0
        vec![0, 0, 0, 0, 0, 0, 0, 0],
    ];
    kani::concrete_playback_run(concrete_vals, c26_float_order_injective);
}
