// vt-replay {"property": "C26", "harness": "c26_composite_two_columns", "module": "c26", "feat": "", "test": "kani_concrete_playback_c26_composite_two_columns_13208966521961344413", "failing_roles": ["composite_columnwise_order"], "native": {"dev": "passes", "release": "passes"}}
/// Test generated for harness `c26::c26_composite_two_columns` 
///
/// Check for `cover`: "w:zero_vs_positive_first_column"
///
/// # Warning
///
/// Concrete playback tests combined with stubs or contracts is highly
/// experimental, and subject to change.
///
/// The original harness has stubs which are not applied to this test.
/// This may cause a mismatch of non-deterministic values if the stub
/// creates any non-deterministic value.
/// The execution path may also differ, which can be used to refine the stub
/// logic.

#[test]
fn kani_concrete_playback_c26_composite_two_columns_13208966521961344413() {
    let concrete_vals: Vec<Vec<u8>> = vec![
        // 1
        vec![1],
        // -8935137262656552938
        vec![22, 0, 0, 0, 0, 4, 0, 132],
        // 23
        vec![23, 0, 0, 0, 0, 0, 0, 0],
        // 0
        vec![0, 0, 0, 0, 0, 0, 0, 0],
        // 17179869184
        vec![0, 0, 0, 0, 4, 0, 0, 0],
    ];
    kani::concrete_playback_run(concrete_vals, c26_composite_two_columns);
}
