// vt-replay {"property": "C26", "harness": "c26_vector_order_roundtrip", "module": "c26", "feat": "", "test": "kani_concrete_playback_c26_vector_order_roundtrip_3313094535296746122", "failing_roles": ["vector_order_preserved", "vector_roundtrip_bits"], "native": {"dev": "fails"}}
/// Test generated for harness `c26::c26_vector_order_roundtrip` 
///
/// Check for `assertion`: ""role=vector_roundtrip_bits""
///
/// # Warning
///
/// Concrete playback tests combined with stubs or contracts is highly
/// experimental, and subject to change.
///
/// The original harness has stubs which are not applied to this test.
/// This may cause a mismatch of non-deterministic values if the stub
/// creates any non-deterministic value.
/// The execution path may also differ, which can be used to refine the stub
/// logic.

#[test]
fn kani_concrete_playback_c26_vector_order_roundtrip_3313094535296746122() {
    let concrete_vals: Vec<Vec<u8>> = vec![
        // -0
        vec![0, 0, 0, 128],
        // -2
        vec![255, 255, 255, 191],
        // -1.630539e-19
        vec![4, 128, 64, 160],
        // -1
        vec![1, 0, 128, 191],
        // 2ul
        vec![2, 0, 0, 0, 0, 0, 0, 0],
        // 1ul
        vec![1, 0, 0, 0, 0, 0, 0, 0],
    ];
    kani::concrete_playback_run(concrete_vals, c26_vector_order_roundtrip);
}
