// vt-replay {"property": "C26", "harness": "c26_float_decode_roundtrip", "module": "c26", "feat": "", "test": "kani_concrete_playback_c26_float_decode_roundtrip_14412037577525519527", "failing_roles": ["float_roundtrip_bits"], "native": {"dev": "fails"}}
/// Test generated for harness `c26::c26_float_decode_roundtrip` 
///
/// Check for `assertion`: ""role=float_roundtrip_bits""
///
/// # Warning
///
/// Concrete playback tests combined with stubs or contracts is highly
/// experimental, and subject to change.
///
/// The original harness has stubs which are not applied to this test.
/// This may cause a mismatch of non-deterministic values if the stub
/// creates any non-deterministic value.
/// The execution path may also differ, which can be used to refine the stub
/// logic.

#[test]
fn kani_concrete_playback_c26_float_decode_roundtrip_14412037577525519527() {
    let concrete_vals: Vec<Vec<u8>> = vec![
        // 8.636169e-78
        vec![0, 0, 0, 0, 0, 0, 240, 47],
        // 125
        vec![125],
    ];
    kani::concrete_playback_run(concrete_vals, c26_float_decode_roundtrip);
}
