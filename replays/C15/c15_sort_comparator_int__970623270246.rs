// vt-replay {"property": "C15", "harness": "c15_sort_comparator_int", "module": "c15", "feat": "", "test": "kani_concrete_playback_c15_sort_comparator_int_5890818970623270246", "failing_roles": ["comparator_equivalence_compatible_with_order", "comparator_equivalence_transitive", "nulls_sort_first"], "native": {"dev": "fails"}}
/// Test generated for harness `c15::c15_sort_comparator_int` 
///
/// Check for `assertion`: ""role=nulls_sort_first""
///
/// # Warning
///
/// Concrete playback tests combined with stubs or contracts is highly
/// experimental, and subject to change.
///
/// The original harness has stubs which are not applied to this test.
/// This may cause a mismatch of non-deterministic values if the stub
/// creates any non-deterministic value.
/// The execution path may also differ, which can be used to refine the stub
/// logic.

#[test]
fn kani_concrete_playback_c15_sort_comparator_int_5890818970623270246() {
    let concrete_vals: Vec<Vec<u8>> = vec![
        // 0
        vec![0],
        // -3435973836800
        vec![0, 0, 0, 0, 224, 252, 255, 255],
        // 1
        vec![1],
        // 1
        vec![1],
    ];
    kani::concrete_playback_run(concrete_vals, c15_sort_comparator_int);
}
