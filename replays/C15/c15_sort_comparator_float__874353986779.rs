// vt-replay {"property": "C15", "harness": "c15_sort_comparator_float", "module": "c15", "feat": "", "test": "kani_concrete_playback_c15_sort_comparator_float_11409773874353986779", "failing_roles": ["comparator_equivalence_compatible_with_order", "comparator_equivalence_transitive", "nulls_sort_first"], "native": {"dev": "fails"}}
/// Test generated for harness `c15::c15_sort_comparator_float` 
///
/// Check for `assertion`: ""role=comparator_equivalence_transitive""
///
/// # Warning
///
/// Concrete playback tests combined with stubs or contracts is highly
/// experimental, and subject to change.
///
/// The original harness has stubs which are not applied to this test.
/// This may cause a mismatch of non-deterministic values if the stub
/// creates any non-deterministic value.
/// The execution path may also differ, which can be used to refine the stub
/// logic.

#[test]
fn kani_concrete_playback_c15_sort_comparator_float_11409773874353986779() {
    let concrete_vals: Vec<Vec<u8>> = vec![
        // 0
        vec![0],
        // 4.940656e-324
        vec![1, 0, 0, 0, 0, 0, 0, 0],
        // 1
        vec![1],
        // 0
        vec![0],
        // 1.482197e-323
        vec![3, 0, 0, 0, 0, 0, 0, 0],
    ];
    kani::concrete_playback_run(concrete_vals, c15_sort_comparator_float);
}
