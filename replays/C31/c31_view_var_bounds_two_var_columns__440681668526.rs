// vt-replay {"property": "C31", "harness": "c31_view_var_bounds_two_var_columns", "module": "c31", "feat": "", "test": "kani_concrete_playback_c31_view_var_bounds_two_var_columns_16842434440681668526", "failing_roles": ["second_var_column_bounds"], "native": {"dev": "fails"}}
/// Test generated for harness `c31::c31_view_var_bounds_two_var_columns` 
///
/// Check for `assertion`: ""role=second_var_column_bounds""
///
/// # Warning
///
/// Concrete playback tests combined with stubs or contracts is highly
/// experimental, and subject to change.
///
/// The original harness has stubs which are not applied to this test.
/// This may cause a mismatch of non-deterministic values if the stub
/// creates any non-deterministic value.
/// The execution path may also differ, which can be used to refine the stub
/// logic.

#[test]
fn kani_concrete_playback_c31_view_var_bounds_two_var_columns_16842434440681668526() {
    let concrete_vals: Vec<Vec<u8>> = vec![
        // 0
        vec![0, 0],
        // 32768
        vec![0, 128],
        // 0
        vec![0],
    ];
    kani::concrete_playback_run(concrete_vals, c31_view_var_bounds_two_var_columns);
}
