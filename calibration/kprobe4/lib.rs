#[cfg(kani)]
mod h {
    use turdb::memory::{MemoryBudget, Pool};
    use core::sync::atomic::{AtomicUsize, Ordering};
    struct NoHandler;
    impl eyre::EyreHandler for NoHandler {
        fn debug(&self, _e: &(dyn std::error::Error + 'static), _f: &mut core::fmt::Formatter<'_>) -> core::fmt::Result { Ok(()) }
    }
    fn stub_capture_handler(_error: &(dyn std::error::Error + 'static)) -> Box<dyn eyre::EyreHandler> { Box::new(NoHandler) }
    fn stub_format(_a: core::fmt::Arguments<'_>) -> String { String::new() }
    fn stub_drop(_r: &mut eyre::Report) {}

    static mut DEPTH: u8 = 1;          // 1 = interference disabled
    static mut ENV_RUNS: u8 = 0;
    static mut BUDGET: *const MemoryBudget = core::ptr::null();
    fn any_pool() -> Pool { match kani::any::<u8>() % 3 { 0 => Pool::Cache, 1 => Pool::Query, _ => Pool::Shared } }
    fn interfere() {
        unsafe {
            if DEPTH == 0 && ENV_RUNS < 1 && kani::any::<bool>() {
                DEPTH = 1; ENV_RUNS += 1;
                let b = &*BUDGET;
                let bytes: usize = kani::any(); kani::assume(bytes <= 8 << 20);
                let r = b.allocate(any_pool(), bytes);
                core::mem::forget(r);
                DEPTH = 0;
            }
        }
    }
    unsafe fn stub_atomic_load<T: Copy, U>(dst: *const T, _o: Ordering) -> T { interfere(); *dst }
    unsafe fn bits<T: Copy>(p: *const T) -> u64 {
        match core::mem::size_of::<T>() { 1 => *(p as *const u8) as u64, 2 => *(p as *const u16) as u64, 4 => *(p as *const u32) as u64, _ => *(p as *const u64) }
    }
    unsafe fn stub_atomic_cxw<T: Copy>(dst: *mut T, old: T, new: T, _s: Ordering, _f: Ordering) -> Result<T, T> {
        interfere();
        let v = *dst;
        if bits(&v as *const T) == bits(&old as *const T) { *dst = new; Ok(v) } else { Err(v) }
    }
    #[kani::proof]
    #[kani::stub(eyre::capture_handler, stub_capture_handler)]
    #[kani::stub(alloc::fmt::format, stub_format)]
    #[kani::stub(<eyre::Report as core::ops::Drop>::drop, stub_drop)]
    #[kani::stub(core::sync::atomic::atomic_load, stub_atomic_load)]
    #[kani::stub(core::sync::atomic::atomic_compare_exchange_weak, stub_atomic_cxw)]
    #[kani::unwind(4)]
    fn budget_two_threads() {
        let b = MemoryBudget::with_limit(4 << 20);
        unsafe { BUDGET = &b; }
        let pre: usize = kani::any(); kani::assume(pre <= 4 << 20);
        let r0 = b.allocate(any_pool(), pre); core::mem::forget(r0);
        assert!(b.total_used() <= b.total_limit());
        unsafe { DEPTH = 0; }
        let bytes: usize = kani::any(); kani::assume(bytes <= 8 << 20);
        let r = b.allocate(any_pool(), bytes); core::mem::forget(r);
        unsafe { DEPTH = 1; }
        assert!(b.total_used() <= b.total_limit());
    }
}
