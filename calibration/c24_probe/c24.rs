//! C24 — vector distance kernels (probe): scalar and AVX2 kernels on small-integer-valued f32 components, where every
//! partial sum is exact, so any summation order / fused multiply-add must give bit-identical results.
use turdb::hnsw::distance::{dot_product_scalar, euclidean_squared_scalar};

fn small(v: i8) -> f32 { v as f32 }

// (probe, not registered) prop=C24 tier=quick bound="euclidean_squared / dot_product, scalar kernels, vectors of length 0..=4 with integer components in -8..=8" outside="non-integer components (rounding), longer vectors" timeout=900
vt_proof! { unwind = 6; fn c24_scalar_kernels_exact_on_small_integers() {
    let a: [i8; 4] = kani::any(); let b: [i8; 4] = kani::any();
    let n: usize = kani::any(); kani::assume(n <= 4);
    let mut i = 0; while i < 4 { kani::assume(a[i] >= -8 && a[i] <= 8 && b[i] >= -8 && b[i] <= 8); i += 1; }
    let fa = [small(a[0]), small(a[1]), small(a[2]), small(a[3])]; let fb = [small(b[0]), small(b[1]), small(b[2]), small(b[3])];
    let mut e: i32 = 0; let mut d: i32 = 0;
    let mut i = 0; while i < 4 { if i < n { let x = a[i] as i32 - b[i] as i32; e += x * x; d += a[i] as i32 * b[i] as i32; } i += 1; }
    assert!(euclidean_squared_scalar(&fa[..n], &fb[..n]) == e as f32, "role=euclidean_squared_exact");
    assert!(dot_product_scalar(&fa[..n], &fb[..n]) == d as f32, "role=dot_product_exact");
    kani::cover!(n == 4 && e == 1024, "w:extreme");
}}

// (probe, not registered) prop=C24 tier=quick bound="euclidean_squared AVX2 kernel (CPU model AVX2+FMA) == scalar kernel, vectors of length 0..=10 with integer components in -4..=4" outside="non-integer components, longer vectors" timeout=1200 mem=16
vt_proof_avx2! { unwind = 12; fn c24_avx2_equals_scalar_on_small_integers() {
    let a: [i8; 10] = kani::any(); let b: [i8; 10] = kani::any();
    let n: usize = kani::any(); kani::assume(n <= 10);
    let mut fa = [0f32; 10]; let mut fb = [0f32; 10];
    let mut i = 0; while i < 10 { kani::assume(a[i] >= -4 && a[i] <= 4 && b[i] >= -4 && b[i] <= 4); fa[i] = a[i] as f32; fb[i] = b[i] as f32; i += 1; }
    let s = euclidean_squared_scalar(&fa[..n], &fb[..n]);
    let v = unsafe { turdb::hnsw::distance::euclidean_squared_avx2(&fa[..n], &fb[..n]) };
    assert!(s.to_bits() == v.to_bits(), "role=avx2_equals_scalar");
    kani::cover!(n == 9, "w:one_batch_plus_tail");
}}
