#[cfg(kani)]
mod h {
    use turdb::btree::{LeafNode, LeafNodeMut, SearchResult};
    struct NoHandler;
    impl eyre::EyreHandler for NoHandler {
        fn debug(&self, _e: &(dyn std::error::Error + 'static), _f: &mut core::fmt::Formatter<'_>) -> core::fmt::Result { Ok(()) }
    }
    fn stub_capture_handler(_error: &(dyn std::error::Error + 'static)) -> Box<dyn eyre::EyreHandler> { Box::new(NoHandler) }
    fn stub_format(_a: core::fmt::Arguments<'_>) -> String { String::new() }
    fn stub_drop(_r: &mut eyre::Report) {}
    fn stub_cpuid(_leaf: u32, _sub: u32) -> core::arch::x86_64::CpuidResult { core::arch::x86_64::CpuidResult { eax: 0, ebx: 0, ecx: 0, edx: 0 } }

    unsafe fn stub_copy<T>(src: *const T, dst: *mut T, count: usize) {
        // byte-wise memmove with explicit direction; bounded by harness unwind
        let n = count * core::mem::size_of::<T>();
        let s = src as *const u8; let d = dst as *mut u8;
        if (d as usize) <= (s as usize) { let mut i = 0; while i < n { *d.add(i) = *s.add(i); i += 1; } }
        else { let mut i = n; while i > 0 { i -= 1; *d.add(i) = *s.add(i); } }
    }
    const PS: usize = 16384;
    macro_rules! H { ($name:ident, $body:block) => {
        #[kani::proof]
        #[kani::stub(eyre::capture_handler, stub_capture_handler)]
        #[kani::stub(alloc::fmt::format, stub_format)]
        #[kani::stub(<eyre::Report as core::ops::Drop>::drop, stub_drop)]
        #[kani::stub(core::arch::x86_64::__cpuid_count, stub_cpuid)]
        #[kani::stub(core::ptr::copy, stub_copy)]
        #[kani::unwind(10)]
        fn $name() $body
    } }
    H!(one_insert, {
        let mut page = [0u8; PS];
        let mut leaf = LeafNodeMut::init(&mut page).unwrap();
        let k1: [u8; 2] = kani::any();
        let v: [u8; 1] = kani::any();
        leaf.insert_cell(&k1, &v).unwrap();
        assert!(leaf.key_at(0).unwrap() == &k1[..]);
    });
    H!(one_insert_find, {
        let mut page = [0u8; PS];
        let mut leaf = LeafNodeMut::init(&mut page).unwrap();
        let k1: [u8; 2] = kani::any();
        let k2: [u8; 2] = kani::any();
        let v: [u8; 1] = kani::any();
        leaf.insert_cell(&k1, &v).unwrap();
        match leaf.find_key(&k2) { SearchResult::Found(i) => assert!(i == 0 && k1 == k2), SearchResult::NotFound(i) => assert!(if k2 < k1 { i == 0 } else { i == 1 }) }
    });
    H!(init_only, {
        let mut page = [0u8; PS];
        let leaf = LeafNodeMut::init(&mut page).unwrap();
        assert!(leaf.cell_count() == 0);
    });
    H!(insert_at_only, {
        let mut page = [0u8; PS];
        let mut leaf = LeafNodeMut::init(&mut page).unwrap();
        let k1: [u8; 2] = kani::any();
        let v: [u8; 1] = kani::any();
        leaf.insert_cell_at(&k1, &v, 0).unwrap();
        assert!(leaf.cell_count() == 1);
    });
    H!(find_only, {
        let mut page = [0u8; PS];
        let leaf = LeafNodeMut::init(&mut page).unwrap();
        let k2: [u8; 2] = kani::any();
        match leaf.find_key(&k2) { SearchResult::NotFound(0) => {}, _ => assert!(false) }
    });
    H!(insert_end_only, {
        let mut page = [0u8; PS];
        let mut leaf = LeafNodeMut::init(&mut page).unwrap();
        let k1: [u8; 2] = kani::any();
        let v: [u8; 1] = kani::any();
        leaf.insert_at_end(&k1, &v).unwrap();
        assert!(leaf.cell_count() == 1);
    });
    H!(two_inserts, {
        let mut page = [0u8; PS];
        let mut leaf = LeafNodeMut::init(&mut page).unwrap();
        let k1: [u8; 2] = kani::any();
        let k2: [u8; 2] = kani::any();
        let v: [u8; 1] = kani::any();
        leaf.insert_cell(&k1, &v).unwrap();
        let r = leaf.insert_cell(&k2, &v);
        if k1 == k2 { assert!(r.is_err()); } else {
            assert!(r.is_ok());
            let a = leaf.key_at(0).unwrap(); let b = leaf.key_at(1).unwrap();
            assert!(a < b);
            match leaf.find_key(&k2) { SearchResult::Found(i) => assert!(leaf.key_at(i).unwrap() == &k2[..]), _ => assert!(false) }
        }
    });
}
