#[cfg(kani)]
mod h {
    use turdb::btree::{find_key_simd, SearchResult};
    struct NoHandler;
    impl eyre::EyreHandler for NoHandler {
        fn debug(&self, _e: &(dyn std::error::Error + 'static), _f: &mut core::fmt::Formatter<'_>) -> core::fmt::Result { Ok(()) }
    }
    fn stub_capture_handler(_error: &(dyn std::error::Error + 'static)) -> Box<dyn eyre::EyreHandler> { Box::new(NoHandler) }
    fn stub_format(_a: core::fmt::Arguments<'_>) -> String { String::new() }
    fn stub_drop(_r: &mut eyre::Report) {}
    fn cpuid_none(_leaf: u32, _sub: u32) -> core::arch::x86_64::CpuidResult { core::arch::x86_64::CpuidResult { eax: 0, ebx: 0, ecx: 0, edx: 0 } }
    // environment: a CPU with AVX2 (leaf1 ecx: OSXSAVE(27) AVX(28); leaf7 ebx: AVX2(5)); xgetbv: XMM|YMM enabled
    fn cpuid_avx2(leaf: u32, _sub: u32) -> core::arch::x86_64::CpuidResult {
        match leaf {
            0 => core::arch::x86_64::CpuidResult { eax: 7, ebx: 0x756e6547, ecx: 0x6c65746e, edx: 0x49656e69 },
            1 => core::arch::x86_64::CpuidResult { eax: 0, ebx: 0, ecx: (1<<27)|(1<<28)|(1<<26), edx: 0 },
            7 => core::arch::x86_64::CpuidResult { eax: 0, ebx: 1<<5, ecx: 0, edx: 0 },
            _ => core::arch::x86_64::CpuidResult { eax: 0, ebx: 0, ecx: 0, edx: 0 },
        }
    }
    fn xgetbv_ymm(_i: u32) -> u64 { 0x7 }

    const PS: usize = 512;
    const N: usize = 9;     // cells
    const KL: usize = 5;    // key length
    fn build(keys: &[[u8; KL]; N]) -> [u8; PS] {
        let mut p = [0u8; PS];
        p[0] = 0x02; // BTreeLeaf
        p[2] = N as u8; // cell_count lo
        let fs = 24 + 8 * N; p[4] = fs as u8; p[5] = (fs >> 8) as u8;
        let cell = KL + 1;
        let fe = PS - N * cell; p[6] = fe as u8; p[7] = (fe >> 8) as u8;
        let mut i = 0;
        while i < N {
            let off = PS - (i + 1) * cell;
            let so = 24 + 8 * i;
            p[so] = keys[i][0]; p[so+1] = keys[i][1]; p[so+2] = keys[i][2]; p[so+3] = keys[i][3];
            p[so+4] = off as u8; p[so+5] = (off >> 8) as u8; p[so+6] = KL as u8; p[so+7] = 0;
            let mut j = 0; while j < KL { p[off + j] = keys[i][j]; j += 1; }
            p[off + KL] = 0; // value_len varint 0
            i += 1;
        }
        p
    }
    fn reference(keys: &[[u8; KL]; N], probe: &[u8; KL]) -> SearchResult {
        let mut i = 0;
        while i < N { if keys[i] == *probe { return SearchResult::Found(i); } if keys[i] > *probe { return SearchResult::NotFound(i); } i += 1; }
        SearchResult::NotFound(N)
    }
    fn body() {
        let suf: [u8; N] = kani::any();
        let mut keys = [[b'A'; KL]; N];
        let mut i = 0; while i < N { keys[i][4] = suf[i]; i += 1; }
        let mut i = 0; while i + 1 < N { kani::assume(suf[i] < suf[i+1]); i += 1; }
        let pl: u8 = kani::any();
        let mut probe = [b'A'; KL]; probe[4] = pl;
        let p3: u8 = kani::any(); kani::assume(p3 == b'A' || p3 == b'@' || p3 == b'B'); probe[3] = p3;
        let page = build(&keys);
        let got = find_key_simd(&page, &probe, N);
        assert!(got == reference(&keys, &probe));
    }
    #[kani::proof]
    #[kani::stub(eyre::capture_handler, stub_capture_handler)]
    #[kani::stub(alloc::fmt::format, stub_format)]
    #[kani::stub(<eyre::Report as core::ops::Drop>::drop, stub_drop)]
    #[kani::stub(core::arch::x86_64::__cpuid_count, cpuid_none)]
    #[kani::unwind(40)]
    fn find_scalar() { body() }
    #[kani::proof]
    #[kani::stub(eyre::capture_handler, stub_capture_handler)]
    #[kani::stub(alloc::fmt::format, stub_format)]
    #[kani::stub(<eyre::Report as core::ops::Drop>::drop, stub_drop)]
    #[kani::stub(core::arch::x86_64::__cpuid_count, cpuid_avx2)]
    #[kani::stub(core::arch::x86_64::_xgetbv, xgetbv_ymm)]
    #[kani::unwind(40)]
    fn find_avx2() { body(); }
}
