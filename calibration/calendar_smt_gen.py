# hand encoding of days_from_ymd vs Hinnant reference, i32 bit-vectors, signed division (Rust semantic: trunc toward zero = bvsdiv)
W=32
def c(n): return f"(_ bv{n % (1<<W)} {W})"
lines=[]
A=lines.append
A("(set-logic ALL)")
for v in "ymd": A(f"(declare-const {v} (_ BitVec {W}))")
A(f"(assert (and (bvsge y {c(1)}) (bvsle y {c(9999)}) (bvsge m {c(1)}) (bvsle m {c(12)}) (bvsge d {c(1)}) (bvsle d {c(31)})))")
def div(a,b): return f"(bvsdiv {a} {b})"
def mul(a,b): return f"(bvmul {a} {b})"
def add(*a): return "(bvadd "+" ".join(a)+")"
def sub(a,b): return f"(bvsub {a} {b})"
# impl
A(f"(define-fun a () (_ BitVec {W}) {div(sub(c(14),'m'),c(12))})")
A(f"(define-fun yy () (_ BitVec {W}) {sub(add('y',c(4800)),'a')})")
A(f"(define-fun mm () (_ BitVec {W}) {sub(add('m',mul(c(12),'a')),c(3))})")
A(f"(define-fun jdn () (_ BitVec {W}) {sub(add('d',div(add(mul(c(153),'mm'),c(2)),c(5)),mul(c(365),'yy'),div('yy',c(4)),div('yy',c(400))),add(div('yy',c(100)),c(32045)))})")
A(f"(define-fun impl () (_ BitVec {W}) {sub('jdn',c(2440588))})")
# ref
A(f"(define-fun ry () (_ BitVec {W}) (ite (bvsle m {c(2)}) {sub('y',c(1))} y))")
A(f"(define-fun era () (_ BitVec {W}) {div('ry',c(400))})")  # ry>=0
A(f"(define-fun yoe () (_ BitVec {W}) {sub('ry',mul('era',c(400)))})")
A(f"(define-fun mp () (_ BitVec {W}) (bvsrem {add('m',c(9))} {c(12)}))")
A(f"(define-fun doy () (_ BitVec {W}) {sub(add(div(add(mul(c(153),'mp'),c(2)),c(5)),'d'),c(1))})")
A(f"(define-fun doe () (_ BitVec {W}) {sub(add(mul('yoe',c(365)),div('yoe',c(4)),'doy'),div('yoe',c(100)))})")
A(f"(define-fun ref () (_ BitVec {W}) {sub(add(mul('era',c(146097)),'doe'),c(719468))})")
A("(assert (not (= impl ref)))")
A("(check-sat)")
open("q.smt2","w").write("\n".join(lines)+"\n")
