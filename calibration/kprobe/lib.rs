#![allow(dead_code)]
fn is_leap_year(year: i32) -> bool { (year % 4 == 0 && year % 100 != 0) || (year % 400 == 0) }
fn days_in_month(year: i32, month: u32) -> u32 { match month { 1|3|5|7|8|10|12 => 31, 4|6|9|11 => 30, 2 => if is_leap_year(year) {29} else {28}, _ => 0 } }
fn date_to_days_since_epoch(year: i32, month: u32, day: u32) -> i32 {
    let mut days: i32 = 0;
    if year >= 1970 { for y in 1970..year { days += if is_leap_year(y) { 366 } else { 365 }; } }
    else { for y in year..1970 { days -= if is_leap_year(y) { 366 } else { 365 }; } }
    for m in 1..month { days += days_in_month(year, m) as i32; }
    days += day as i32 - 1;
    days
}
fn days_from_ymd(year: i32, month: u32, day: u32) -> i32 {
    let a = (14 - month as i32) / 12;
    let y = year + 4800 - a;
    let m = month as i32 + 12 * a - 3;
    let jdn = day as i32 + (153 * m + 2) / 5 + 365 * y + y / 4 - y / 100 + y / 400 - 32045;
    jdn - 2440588
}
fn date_to_days(year: i64, month: u32, day: u32) -> i64 {
    let y = if month <= 2 { year - 1 } else { year };
    let m = if month <= 2 { month + 12 } else { month };
    365 * y + y / 4 - y / 100 + y / 400 + (153 * (m as i64 - 3) + 2) / 5 + day as i64 - 306
}
fn days_to_date(days: i64) -> (i64, u32, u32) {
    let z = days + 306;
    let h = 100 * z - 25;
    let a = h / 3652425;
    let b = a - a / 4;
    let y = (100 * b + h) / 36525;
    let c = b + z - 365 * y - y / 4;
    let m = (5 * c + 456) / 153;
    let d = c - (153 * m - 457) / 5;
    let (year, month) = if m > 12 { (y + 1, m - 12) } else { (y, m) };
    (year, month as u32, d as u32)
}
// reference: Hinnant days_from_civil
fn ref_days(y: i64, m: i64, d: i64) -> i64 {
    let y = if m <= 2 { y - 1 } else { y };
    let era = if y >= 0 { y } else { y - 399 } / 400;
    let yoe = y - era * 400;
    let mp = (m + 9) % 12;
    let doy = (153 * mp + 2) / 5 + d - 1;
    let doe = yoe * 365 + yoe / 4 - yoe / 100 + doy;
    era * 146097 + doe - 719468
}
#[cfg(kani)]
mod h {
    use super::*;
    fn valid() -> (i32,u32,u32) {
        let y: i32 = kani::any(); let m: u32 = kani::any(); let d: u32 = kani::any();
        kani::assume(y >= 1 && y <= 9999 && m >= 1 && m <= 12 && d >= 1 && d <= days_in_month(y, m));
        (y,m,d)
    }
    #[kani::proof]
    fn p_default_vs_ref() { let (y,m,d) = valid(); assert_eq!(days_from_ymd(y,m,d) as i64, ref_days(y as i64,m as i64,d as i64)); }
    #[kani::proof]
    fn p_fn_vs_ref() { let (y,m,d) = valid(); assert_eq!(date_to_days(y as i64,m,d) - 719163, ref_days(y as i64,m as i64,d as i64)); }
    #[kani::proof]
    fn p_fn_roundtrip() { let (y,m,d) = valid(); let n = date_to_days(y as i64,m,d); assert_eq!(days_to_date(n), (y as i64,m,d)); }
    #[kani::proof]
    #[kani::unwind(8100)]
    fn p_literal_vs_ref() { let (y,m,d) = valid(); assert_eq!(date_to_days_since_epoch(y,m,d) as i64, ref_days(y as i64,m as i64,d as i64)); }
}
