//! C31 — row records round-trip through the record format (src/records/{builder,view,schema}.rs).
use turdb::records::types::{ColumnDef, DataType};
use turdb::records::{RecordBuilder, RecordView, Schema};

fn schema_of(types: &[DataType]) -> Schema {
    let mut cols = Vec::with_capacity(types.len());
    let mut i = 0;
    while i < types.len() {
        cols.push(ColumnDef::new("c", types[i]));
        i += 1;
    }
    Schema::new(cols)
}

// NOTE on sizes: schemas have at most 4 columns. `Schema::new` grows its offset vectors by `push`; the fifth push
// reallocates (memcpy), after which CBMC no longer constant-propagates the (concrete) schema tables and every
// offset becomes a symbolic heap read — measured: out of memory at 16 GB for 9 columns, seconds for 4.

// ---------------------------------------------------------------- view: variable-column offset arithmetic
// @vt prop=C31 tier=thorough bound="schema (text, int8, blob, text): EVERY offset table (three arbitrary u16 entries), arbitrary null bitmap" outside="schemas with more than 3 variable columns; the payload bytes (bounds only)" timeout=2400 mem=40
vt_proof! { unwind = 8; fn c31_view_var_bounds_all_offsets() {
    let schema = core::mem::ManuallyDrop::new(schema_of(&[DataType::Text, DataType::Int8, DataType::Blob, DataType::Text]));
    // record header by the documented layout: [header_len u16][null bitmap 1][offset table 3*2][fixed 8]
    let e: [u16; 3] = kani::any();
    let mut rec = [0u8; 17];
    rec[0] = 9; rec[1] = 0;
    rec[2] = kani::any();
    rec[3] = e[0] as u8; rec[4] = (e[0] >> 8) as u8;
    rec[5] = e[1] as u8; rec[6] = (e[1] >> 8) as u8;
    rec[7] = e[2] as u8; rec[8] = (e[2] >> 8) as u8;
    let view = match RecordView::new(&rec, &schema) { Ok(v) => v, Err(_) => { assert!(false, "role=view_new_ok"); return; } };
    let base = 9 + 8;
    let b0 = core::mem::ManuallyDrop::new(view.get_var_bounds(0));
    let b2 = core::mem::ManuallyDrop::new(view.get_var_bounds(2));
    let b3 = core::mem::ManuallyDrop::new(view.get_var_bounds(3));
    match (&*b0, &*b2, &*b3) {
        (Ok(a), Ok(b), Ok(c)) => {
            assert!(*a == (base, base + e[0] as usize), "role=first_var_column_bounds");
            assert!(*b == (base + e[0] as usize, base + e[1] as usize), "role=second_var_column_bounds");
            assert!(*c == (base + e[1] as usize, base + e[2] as usize), "role=third_var_column_bounds");
        }
        _ => assert!(false, "role=var_bounds_ok"),
    }
    kani::cover!(e[0] == 200 && e[1] == 496, "w:straddles_256");
    kani::cover!(e[1] > 0x7fff, "w:large_offset");
    let b1 = core::mem::ManuallyDrop::new(view.get_var_bounds(1));
    assert!(b1.is_err(), "role=fixed_column_has_no_var_bounds");
    assert!(view.get_fixed_col_offset(1) == 9, "role=fixed_offsets");
}}

// ---------------------------------------------------------------- builder -> view, fixed-width columns
/// 4-column fixed-width round trip: `$set`/`$get` are (column index, setter call, getter check) triples.
macro_rules! fixed_rt {
    ($schema:expr, $nulls:ident, [$(($i:expr, $set:expr, $chk:expr, $role:literal)),+]) => {{
        let schema = core::mem::ManuallyDrop::new(schema_of(&$schema));
        let $nulls: [bool; 4] = kani::any();
        let mut b = RecordBuilder::new(&schema);
        let mut ok = true;
        $( if !$nulls[$i] { let r = core::mem::ManuallyDrop::new($set(&mut b)); ok &= r.is_ok(); } )+
        assert!(ok, "role=setters_ok");
        let rec = match b.build() { Ok(r) => r, Err(_) => { assert!(false, "role=build_ok"); return; } };
        let view = match RecordView::new(&rec, &schema) { Ok(v) => v, Err(_) => { assert!(false, "role=view_new_ok"); return; } };
        let mut i = 0; while i < 4 { assert!(view.is_null(i) == $nulls[i], "role=null_pattern_roundtrip"); i += 1; }
        $( if !$nulls[$i] { assert!($chk(&view), $role); } )+
        kani::cover!($nulls[0] && !$nulls[3], "w:mixed_nulls");
        kani::cover!(!$nulls[0] && !$nulls[1] && !$nulls[2] && !$nulls[3], "w:no_nulls");
        core::mem::forget((rec, b));
    }};
}



// ---------------------------------------------------------------- builder -> view, variable-width columns
fn set_var(b: &mut RecordBuilder, col: usize, data: &[u8; 2], n: usize) -> bool {
    // concrete length per branch (symbolic allocation / memcpy sizes are a CBMC blow-up; exhaustive split)
    if n == 0 { b.set_blob(col, &data[..0]).is_ok() } else if n == 1 { b.set_blob(col, &data[..1]).is_ok() } else { b.set_blob(col, &data[..2]).is_ok() }
}
fn var_eq(got: &[u8], data: &[u8; 2], n: usize) -> bool {
    if got.len() != n { return false; }
    let mut i = 0; while i < n { if got[i] != data[i] { return false; } i += 1; }
    true
}


// ---------------------------------------------------------------- quick tier: what fits 16 GB
// Measured: RecordBuilder on a 2-column schema and the 4-column view harness above run the SAT solver out of 16-20 GB
// (Vec<Vec<u8>> / Vec<ColumnDef> state on the heap); the quick tier therefore uses 1- and 2-column schemas, the
// 4-column harnesses stay in the thorough tier with a 40 GB cap.

// Removed after measurement (thorough validation run, 2026-09-22): the 4-column builder -> view harnesses
// (c31_fixed_rt_{ints,floats_dates,ts_ids,wide}), c31_var_roundtrip (4 columns, two blobs) and c31_reset_equals_fresh
// (2 columns) all ended in solver out-of-memory / undetermined checks at 40 GB: RecordBuilder with >= 2 columns is out
// of reach (DESIGN 0.2 item 6). The builder is decided on single-column schemas below.
// @vt prop=C31 tier=quick bound="view offset arithmetic, schema (text, blob): EVERY offset table (two arbitrary u16 entries), arbitrary null bitmap" outside="more than 2 variable columns in the quick tier; payload bytes (bounds only)" timeout=1800 mem=16
vt_proof! { unwind = 8; fn c31_view_var_bounds_two_var_columns() {
    let schema = core::mem::ManuallyDrop::new(schema_of(&[DataType::Text, DataType::Blob]));
    let e: [u16; 2] = kani::any();
    let mut rec = [0u8; 8];
    rec[0] = 7; rec[2] = kani::any();
    rec[3] = e[0] as u8; rec[4] = (e[0] >> 8) as u8; rec[5] = e[1] as u8; rec[6] = (e[1] >> 8) as u8;
    let view = match RecordView::new(&rec, &schema) { Ok(v) => v, Err(_) => { assert!(false, "role=view_new_ok"); return; } };
    let b0 = core::mem::ManuallyDrop::new(view.get_var_bounds(0));
    let b1 = core::mem::ManuallyDrop::new(view.get_var_bounds(1));
    match (&*b0, &*b1) {
        (Ok(a), Ok(b)) => { assert!(*a == (7, 7 + e[0] as usize), "role=first_var_column_bounds"); assert!(*b == (7 + e[0] as usize, 7 + e[1] as usize), "role=second_var_column_bounds"); }
        _ => assert!(false, "role=var_bounds_ok"),
    }
    kani::cover!(e[0] == 200 && e[1] == 496, "w:straddles_256");
    kani::cover!(e[1] > 0x7fff, "w:large_offset");
}}

// @vt prop=C31 tier=quick bound="view, schema (int8, blob): hand-built record by the documented layout with arbitrary int8 bytes, arbitrary null bitmap, blob of 0..=2 arbitrary bytes: get_int8 / get_blob / is_null" outside="other schemas" timeout=1800 mem=16
vt_proof! { unwind = 10; fn c31_view_reads_documented_layout() {
    let schema = core::mem::ManuallyDrop::new(schema_of(&[DataType::Int8, DataType::Blob]));
    // [header_len u16 = 5][null bitmap 1][offset table 1*2][fixed 8][var data]
    let x: i64 = kani::any(); let nb: u8 = kani::any(); let d: [u8; 2] = kani::any(); let n: usize = kani::any(); kani::assume(n <= 2);
    let mut rec = [0u8; 15];
    rec[0] = 5; rec[2] = nb; rec[3] = n as u8; rec[4] = 0;
    let xb = x.to_le_bytes(); let mut i = 0; while i < 8 { rec[5 + i] = xb[i]; i += 1; }
    rec[13] = d[0]; rec[14] = d[1];
    let view = match RecordView::new(&rec[..13 + n], &schema) { Ok(v) => v, Err(_) => { assert!(false, "role=view_new_ok"); return; } };
    assert!(view.is_null(0) == (nb & 1 != 0) && view.is_null(1) == (nb & 2 != 0), "role=null_bitmap_bits");
    assert!(matches!(view.get_int8(0), Ok(v) if v == x), "role=int8_roundtrip");
    let b = core::mem::ManuallyDrop::new(view.get_blob(1));
    match &*b { Ok(b) => { assert!(b.len() == n, "role=first_var_roundtrip"); if n > 0 { assert!(b[0] == d[0], "role=first_var_roundtrip"); } if n > 1 { assert!(b[1] == d[1], "role=first_var_roundtrip"); } } Err(_) => assert!(false, "role=get_blob_ok") }
    kani::cover!(n == 2 && nb == 0, "w:two_byte_blob");
}}

fn one_col(t: DataType) -> core::mem::ManuallyDrop<Schema> { core::mem::ManuallyDrop::new(schema_of(&[t])) }

// @vt prop=C31 tier=quick bound="builder -> view, single-column schemas int8 / float8 / uuid with arbitrary value or NULL; build == build_into" outside="multi-column schemas in the quick tier (thorough: 4 columns)" timeout=1800 mem=16
vt_proof! { unwind = 18; fn c31_builder_single_fixed_column() {
    let which: u8 = kani::any(); kani::assume(which < 3);
    let null: bool = kani::any();
    if which == 0 {
        let s = one_col(DataType::Int8); let v: i64 = kani::any(); let mut b = RecordBuilder::new(&s);
        if !null { let r = core::mem::ManuallyDrop::new(b.set_int8(0, v)); assert!(r.is_ok(), "role=setters_ok"); }
        let rec = match b.build() { Ok(r) => r, Err(_) => { assert!(false, "role=build_ok"); return; } };
        let view = match RecordView::new(&rec, &s) { Ok(v) => v, Err(_) => { assert!(false, "role=view_new_ok"); return; } };
        assert!(view.is_null(0) == null, "role=null_pattern_roundtrip");
        if !null { assert!(matches!(view.get_int8(0), Ok(x) if x == v), "role=int8_roundtrip"); }
        core::mem::forget((rec, b));
    } else if which == 1 {
        let s = one_col(DataType::Float8); let v: f64 = kani::any(); let mut b = RecordBuilder::new(&s);
        if !null { let r = core::mem::ManuallyDrop::new(b.set_float8(0, v)); assert!(r.is_ok(), "role=setters_ok"); }
        let rec = match b.build() { Ok(r) => r, Err(_) => { assert!(false, "role=build_ok"); return; } };
        let view = match RecordView::new(&rec, &s) { Ok(v) => v, Err(_) => { assert!(false, "role=view_new_ok"); return; } };
        assert!(view.is_null(0) == null, "role=null_pattern_roundtrip");
        if !null { assert!(matches!(view.get_float8(0), Ok(x) if x.to_bits() == v.to_bits()), "role=float8_roundtrip"); }
        core::mem::forget((rec, b));
    } else {
        let s = one_col(DataType::Uuid); let v: [u8; 16] = kani::any(); let mut b = RecordBuilder::new(&s);
        if !null { let r = core::mem::ManuallyDrop::new(b.set_uuid(0, &v)); assert!(r.is_ok(), "role=setters_ok"); }
        let rec = match b.build() { Ok(r) => r, Err(_) => { assert!(false, "role=build_ok"); return; } };
        let view = match RecordView::new(&rec, &s) { Ok(v) => v, Err(_) => { assert!(false, "role=view_new_ok"); return; } };
        assert!(view.is_null(0) == null, "role=null_pattern_roundtrip");
        if !null { assert!(matches!(view.get_uuid(0), Ok(x) if *x == v), "role=uuid_roundtrip"); }
        core::mem::forget((rec, b));
    }
    kani::cover!(which == 2 && !null, "w:uuid_value");
}}

// @vt prop=C31 tier=quick bound="builder -> view, single blob column: value of 0..=2 arbitrary bytes; set, reset, set another value == fresh builder, byte for byte; build == build_into" outside="multi-column schemas in the quick tier" timeout=1800 mem=16
vt_proof! { unwind = 12; fn c31_builder_single_blob_reset_equals_fresh() {
    let s = one_col(DataType::Blob);
    let d1: [u8; 2] = kani::any(); let d2: [u8; 2] = kani::any();
    let (n1, n2): (usize, usize) = (kani::any(), kani::any()); kani::assume(n1 <= 2 && n2 <= 2);
    let mut used = RecordBuilder::new(&s);
    let _ = set_var(&mut used, 0, &d1, n1);
    used.reset();
    let _ = set_var(&mut used, 0, &d2, n2);
    let mut fresh = RecordBuilder::new(&s);
    let _ = set_var(&mut fresh, 0, &d2, n2);
    let (ru, rf) = match (used.build(), fresh.build()) { (Ok(a), Ok(b)) => (a, b), _ => { assert!(false, "role=build_ok"); return; } };
    assert!(ru.len() == rf.len(), "role=reset_same_length_as_fresh");
    let mut i = 0; while i < rf.len() { assert!(ru[i] == rf[i], "role=reset_same_bytes_as_fresh"); i += 1; }
    let view = match RecordView::new(&rf, &s) { Ok(v) => v, Err(_) => { assert!(false, "role=view_new_ok"); return; } };
    assert!(matches!(view.get_blob(0), Ok(x) if var_eq(x, &d2, n2)), "role=first_var_roundtrip");
    kani::cover!(n1 == 2 && n2 == 1, "w:shorter_value_after_reset");
    core::mem::forget((ru, rf, used, fresh));
}}
