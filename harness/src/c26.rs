//! C26 — index key encoding preserves order and is invertible (src/encoding/key.rs).
//!
//! Encoders are generic over `KeyBuffer`; unless a harness says otherwise the instantiation is
//! `FixBuf<N>` (harness/src/common.rs). `c26_vec_*` harnesses run the `Vec<u8>` instantiation.
use crate::common::{lex_cmp, FixBuf};
use core::cmp::Ordering::{self, *};
use turdb::encoding::key::*;

fn ord3<A: Ord, B: Ord, C: Ord>(a: (A, B, C), b: (A, B, C)) -> Ordering {
    a.cmp(&b)
}


/// Flat, `Copy` view of `decode_key`'s result. The real `DecodedKey` is a recursive enum whose drop
/// glue CBMC would unwind through every variant; the result is therefore wrapped in `ManuallyDrop`
/// (leaked) and only inspected by reference.
#[derive(Clone, Copy, PartialEq)]
pub enum Flat {
    Null, Bool(bool), Int(i64), Float(u64), NegInf, PosInf, Nan, Date(i32), Time(i64), Timestamp(i64),
    TimestampTz(i64, i16), Interval(i32, i32, i64), Uuid([u8; 16]), Mac([u8; 6]), Enum(u32, u32),
    JsonNull, JsonBool(bool), JsonNumber(u64), Bytes([u8; 4], usize, bool), Vector([u32; 2], usize), Other, Error,
}
pub fn dk(buf: &[u8]) -> (Flat, usize) {
    let r = core::mem::ManuallyDrop::new(decode_key(buf));
    match &*r {
        Err(_) => (Flat::Error, 0),
        Ok((k, n)) => (match k {
            DecodedKey::Null => Flat::Null, DecodedKey::Bool(b) => Flat::Bool(*b), DecodedKey::Int(v) => Flat::Int(*v),
            DecodedKey::Float(f) => Flat::Float(f.to_bits()), DecodedKey::NegInfinity => Flat::NegInf, DecodedKey::PosInfinity => Flat::PosInf,
            DecodedKey::Nan => Flat::Nan, DecodedKey::Date(d) => Flat::Date(*d), DecodedKey::Time(t) => Flat::Time(*t),
            DecodedKey::Timestamp(t) => Flat::Timestamp(*t),
            DecodedKey::TimestampTz { micros, tz_offset_mins } => Flat::TimestampTz(*micros, *tz_offset_mins),
            DecodedKey::Interval { months, days, micros } => Flat::Interval(*months, *days, *micros),
            DecodedKey::Uuid(u) => Flat::Uuid(*u), DecodedKey::MacAddr(m) => Flat::Mac(*m),
            DecodedKey::Enum { type_id, ordinal } => Flat::Enum(*type_id, *ordinal),
            DecodedKey::Json(DecodedJson::Null) => Flat::JsonNull, DecodedKey::Json(DecodedJson::Bool(b)) => Flat::JsonBool(*b),
            DecodedKey::Json(DecodedJson::Number(f)) => Flat::JsonNumber(f.to_bits()),
            DecodedKey::Blob(v) => { let mut o = [0u8; 4]; let mut i = 0; while i < v.len() && i < 4 { o[i] = v[i]; i += 1; } Flat::Bytes(o, v.len(), false) }
            DecodedKey::Text(t) => { let v = t.as_bytes(); let mut o = [0u8; 4]; let mut i = 0; while i < v.len() && i < 4 { o[i] = v[i]; i += 1; } Flat::Bytes(o, v.len(), true) }
            DecodedKey::Vector(v) => { let mut o = [0u32; 2]; let mut i = 0; while i < v.len() && i < 2 { o[i] = v[i].to_bits(); i += 1; } Flat::Vector(o, v.len()) }
            _ => Flat::Other,
        }, *n),
    }
}

// ---------------------------------------------------------------- integers
// @vt prop=C26 tier=quick bound="all pairs of i64" outside="none (loop bound 9 = fixed encoding width)"
vt_proof! { unwind = 11; fn c26_int_order_injective() {
    let a: i64 = kani::any(); let b: i64 = kani::any();
    let mut ka = FixBuf::<9>::new(); let mut kb = FixBuf::<9>::new();
    encode_int(a, &mut ka); encode_int(b, &mut kb);
    kani::cover!(a < 0 && b > 0, "w:mixed_sign");
    kani::cover!(a < 0 && b < 0 && a != b, "w:both_negative");
    let c = lex_cmp(ka.as_slice(), kb.as_slice());
    assert!(c == a.cmp(&b), "role=int_order_preserved");
    assert!((c == Equal) == (a == b), "role=int_injective");
}}

// @vt prop=C26 tier=quick bound="all i64" outside="none"
vt_proof! { unwind = 11; fn c26_int_decode_roundtrip() {
    let a: i64 = kani::any();
    let mut ka = FixBuf::<12>::new();
    encode_int(a, &mut ka);
    let n = ka.n;
    // trailing bytes of a following column must not disturb decoding
    ka.b[n] = kani::any(); ka.n = n + 1;
    for_prefix!(ka.b, [type_prefix::NEG_INT, type_prefix::ZERO, type_prefix::POS_INT], {
        match dk(ka.as_slice()) {
            (Flat::Int(v), used) => { assert!(v == a, "role=int_roundtrip_value"); assert!(used == n, "role=int_roundtrip_consumed"); }
            _ => assert!(false, "role=int_roundtrip_variant"),
        }
    });
    kani::cover!(a == i64::MIN, "w:min"); kani::cover!(a == 0, "w:zero");
}}

// ---------------------------------------------------------------- floats
// @vt prop=C26 tier=quick bound="all pairs of f64 bit patterns (incl. +-0, +-inf, subnormals, every NaN payload)" outside="none"
vt_proof! { unwind = 11; fn c26_float_order_injective() {
    let a: f64 = kani::any(); let b: f64 = kani::any();
    let mut ka = FixBuf::<9>::new(); let mut kb = FixBuf::<9>::new();
    encode_float(a, &mut ka); encode_float(b, &mut kb);
    let c = lex_cmp(ka.as_slice(), kb.as_slice());
    kani::cover!(a < 0.0 && b < 0.0 && a < b, "w:both_negative");
    kani::cover!(a.is_nan() && !b.is_nan(), "w:nan_vs_number");
    kani::cover!(a.to_bits() == 0x8000_0000_0000_0000 && b.to_bits() == 0, "w:neg_zero_vs_pos_zero");
    kani::cover!(a > 0.0 && a < f64::MIN_POSITIVE, "w:subnormal");
    if !a.is_nan() && !b.is_nan() {
        if a < b { assert!(c == Less, "role=float_order_preserved"); }
        if a > b { assert!(c == Greater, "role=float_order_preserved"); }
        if a == b { assert!(c == Equal, "role=float_equal_values_equal_keys"); }
        if c == Equal { assert!(a == b, "role=float_injective"); }
    } else if a.is_nan() && b.is_nan() {
        assert!(c == Equal, "role=nan_single_key");
    } else if a.is_nan() {
        assert!(c == Greater, "role=nan_sorts_last");
    } else {
        assert!(c == Less, "role=nan_sorts_last");
    }
}}

// @vt prop=C26 tier=quick bound="all f64 bit patterns" outside="none"
vt_proof! { unwind = 11; fn c26_float_decode_roundtrip() {
    let a: f64 = kani::any();
    let mut ka = FixBuf::<12>::new();
    encode_float(a, &mut ka);
    let n = ka.n;
    ka.b[n] = kani::any(); ka.n = n + 1;
    for_prefix!(ka.b, [type_prefix::NAN, type_prefix::NEG_INFINITY, type_prefix::POS_INFINITY, type_prefix::NEG_FLOAT, type_prefix::ZERO, type_prefix::POS_FLOAT], {
    let (d, used) = dk(ka.as_slice());
    assert!(d != Flat::Error, "role=float_roundtrip_ok");
    assert!(used == n, "role=float_roundtrip_consumed");
    if a.is_nan() { assert!(d == Flat::Nan, "role=float_roundtrip_nan"); }
    else if a == f64::INFINITY { assert!(d == Flat::PosInf, "role=float_roundtrip_inf"); }
    else if a == f64::NEG_INFINITY { assert!(d == Flat::NegInf, "role=float_roundtrip_inf"); }
    else if a == 0.0 { assert!(d == Flat::Int(0), "role=float_zero_documented_collision"); }
    else { assert!(d == Flat::Float(a.to_bits()), "role=float_roundtrip_bits"); }
    });
}}

// @vt prop=C26 tier=quick bound="all (i64, f64) pairs" outside="none"
vt_proof! { unwind = 11; fn c26_int_float_collision_only_zero() {
    let a: i64 = kani::any(); let f: f64 = kani::any();
    let mut ka = FixBuf::<9>::new(); let mut kb = FixBuf::<9>::new();
    encode_int(a, &mut ka); encode_float(f, &mut kb);
    if lex_cmp(ka.as_slice(), kb.as_slice()) == Equal {
        assert!(a == 0 && f == 0.0, "role=int_float_collide_only_at_zero");
    }
    kani::cover!(a == 0 && f == 0.0, "w:zero_collision_reachable");
}}

// ---------------------------------------------------------------- fixed-width temporal / id types
// @vt prop=C26 tier=quick bound="all pairs of i32 days / i64 micros / (i64,i16) / (i32,i32,i64) / (u32,u32)" outside="none"
vt_proof! { unwind = 19; fn c26_temporal_order_roundtrip() {
    let which: u8 = kani::any();
    kani::assume(which < 6);
    let mut ka = FixBuf::<17>::new(); let mut kb = FixBuf::<17>::new();
    let (a1, b1): (i64, i64) = (kani::any(), kani::any());
    let (a2, b2): (i32, i32) = (kani::any(), kani::any());
    let (a3, b3): (i32, i32) = (kani::any(), kani::any());
    let (a4, b4): (i16, i16) = (kani::any(), kani::any());
    let expect: Ordering;
    match which {
        0 => { encode_date(a2, &mut ka); encode_date(b2, &mut kb); expect = a2.cmp(&b2);
               assert!(dk(ka.as_slice()) == (Flat::Date(a2), 5), "role=date_roundtrip"); }
        1 => { encode_time(a1, &mut ka); encode_time(b1, &mut kb); expect = a1.cmp(&b1);
               assert!(dk(ka.as_slice()) == (Flat::Time(a1), 9), "role=time_roundtrip"); }
        2 => { encode_timestamp(a1, &mut ka); encode_timestamp(b1, &mut kb); expect = a1.cmp(&b1);
               assert!(dk(ka.as_slice()) == (Flat::Timestamp(a1), 9), "role=timestamp_roundtrip"); }
        3 => { encode_timestamptz(a1, a4, &mut ka); encode_timestamptz(b1, b4, &mut kb); expect = (a1, a4).cmp(&(b1, b4));
               assert!(dk(ka.as_slice()) == (Flat::TimestampTz(a1, a4), 11), "role=timestamptz_roundtrip"); }
        4 => { encode_interval(a2, a3, a1, &mut ka); encode_interval(b2, b3, b1, &mut kb); expect = ord3((a2, a3, a1), (b2, b3, b1));
               assert!(dk(ka.as_slice()) == (Flat::Interval(a2, a3, a1), 17), "role=interval_roundtrip"); }
        _ => { encode_enum(a2 as u32, a3 as u32, &mut ka); encode_enum(b2 as u32, b3 as u32, &mut kb); expect = (a2 as u32, a3 as u32).cmp(&(b2 as u32, b3 as u32));
               assert!(dk(ka.as_slice()) == (Flat::Enum(a2 as u32, a3 as u32), 9), "role=enum_roundtrip"); }
    }
    kani::cover!(which == 4 && a2 == b2 && a3 == b3 && a1 < 0 && b1 > 0, "w:interval_tiebreak_on_micros");
    kani::cover!(which == 0 && a2 < 0 && b2 >= 0, "w:date_negative_vs_positive");
    let c = lex_cmp(ka.as_slice(), kb.as_slice());
    assert!(c == expect, "role=fixed_width_order_preserved");
}}

// @vt prop=C26 tier=quick bound="all pairs of 16-byte uuids and 6-byte mac addresses; bool; null" outside="none"
vt_proof! { unwind = 19; fn c26_uuid_mac_bool_order_roundtrip() {
    let a: [u8; 16] = kani::any(); let b: [u8; 16] = kani::any();
    let mut ka = FixBuf::<17>::new(); let mut kb = FixBuf::<17>::new();
    encode_uuid(&a, &mut ka); encode_uuid(&b, &mut kb);
    assert!(lex_cmp(ka.as_slice(), kb.as_slice()) == lex_cmp(&a, &b), "role=uuid_order_preserved");
    match dk(ka.as_slice()) { (Flat::Uuid(d), 17) => assert!(lex_cmp(&d, &a) == Equal, "role=uuid_roundtrip"), _ => assert!(false, "role=uuid_roundtrip") }
    let ma: [u8; 6] = kani::any(); let mb: [u8; 6] = kani::any();
    let mut ma_k = FixBuf::<7>::new(); let mut mb_k = FixBuf::<7>::new();
    encode_macaddr(&ma, &mut ma_k); encode_macaddr(&mb, &mut mb_k);
    assert!(lex_cmp(ma_k.as_slice(), mb_k.as_slice()) == lex_cmp(&ma, &mb), "role=mac_order_preserved");
    match dk(ma_k.as_slice()) { (Flat::Mac(d), 7) => assert!(lex_cmp(&d, &ma) == Equal, "role=mac_roundtrip"), _ => assert!(false, "role=mac_roundtrip") }
    let (x, y): (bool, bool) = (kani::any(), kani::any());
    let mut xk = FixBuf::<2>::new(); let mut yk = FixBuf::<2>::new(); let mut nk = FixBuf::<2>::new();
    encode_bool(x, &mut xk); encode_bool(y, &mut yk); encode_null(&mut nk);
    assert!(lex_cmp(xk.as_slice(), yk.as_slice()) == x.cmp(&y), "role=bool_order_preserved");
    assert!(lex_cmp(nk.as_slice(), xk.as_slice()) == Less, "role=null_below_bool");
    for_prefix!(xk.b, [type_prefix::FALSE, type_prefix::TRUE], {
        assert!(dk(xk.as_slice()) == (Flat::Bool(x), 1), "role=bool_roundtrip");
    });
    assert!(dk(nk.as_slice()) == (Flat::Null, 1), "role=null_roundtrip");
}}

// ---------------------------------------------------------------- escaped byte strings
fn any_bytes3() -> ([u8; 3], usize) {
    let b: [u8; 3] = kani::any();
    let n: usize = kani::any();
    kani::assume(n <= 3);
    (b, n)
}

// @vt prop=C26 tier=quick bound="all pairs of byte strings of length 0..=3 (every byte value incl. 0x00 and 0xFF)" outside="strings longer than 3 bytes"
vt_proof! { unwind = 12; fn c26_blob_order_prefixfree() {
    let (a, an) = any_bytes3(); let (b, bn) = any_bytes3();
    let mut ka = FixBuf::<10>::new(); let mut kb = FixBuf::<10>::new();
    encode_blob(&a[..an], &mut ka); encode_blob(&b[..bn], &mut kb);
    let c = lex_cmp(ka.as_slice(), kb.as_slice());
    let e = lex_cmp(&a[..an], &b[..bn]);
    kani::cover!(an == 1 && bn == 2 && a[0] == 0 && b[0] == 0 && b[1] == 0, "w:embedded_nul_prefix_pair");
    kani::cover!(an == 3 && a[0] == 0xFF && a[1] == 0x00 && a[2] == 0xFF, "w:ff_00_ff");
    assert!(c == e, "role=blob_order_preserved");
    assert!((c == Equal) == (e == Equal), "role=blob_injective");
    // prefix-freeness: neither key is a proper prefix of the other (needed for composite keys)
    if e != Equal {
        let (s, l) = if ka.n <= kb.n { (&ka, &kb) } else { (&kb, &ka) };
        let mut i = 0; let mut is_prefix = true;
        while i < s.n { if s.b[i] != l.b[i] { is_prefix = false; } i += 1; }
        assert!(!is_prefix, "role=blob_prefix_free");
    }
}}

// @vt prop=C26 tier=quick bound="all byte strings of length 0..=3 followed by one arbitrary byte of a next column" outside="strings longer than 3 bytes"
vt_proof! { unwind = 12; fn c26_blob_decode_roundtrip() {
    let (a, an) = any_bytes3();
    let mut ka = FixBuf::<10>::new();
    encode_blob(&a[..an], &mut ka);
    let n = ka.n;
    ka.b[n] = kani::any(); ka.n = n + 1;
    for_prefix!(ka.b, [type_prefix::BLOB], {
    match dk(ka.as_slice()) {
        (Flat::Bytes(v, vl, false), used) => {
            assert!(used == n, "role=blob_roundtrip_consumed");
            assert!(vl == an, "role=blob_roundtrip_len");
            let mut i = 0; while i < an { assert!(v[i] == a[i], "role=blob_roundtrip_bytes"); i += 1; }
        }
        _ => assert!(false, "role=blob_roundtrip_variant"),
    }
    });
    kani::cover!(an == 3 && a[1] == 0xFF, "w:ff_inside");
}}

// @vt prop=C26 tier=quick bound="all pairs of ASCII (byte < 0x80) strings of length 0..=3, incl. NUL" outside="non-ASCII UTF-8 (same escape routine as blob, which is decided for all bytes); longer strings"
vt_proof! { unwind = 12; fn c26_text_order_roundtrip() {
    let (a, an) = any_bytes3(); let (b, bn) = any_bytes3();
    kani::assume(a[0] < 0x80 && a[1] < 0x80 && a[2] < 0x80 && b[0] < 0x80 && b[1] < 0x80 && b[2] < 0x80);
    let sa = unsafe { core::str::from_utf8_unchecked(&a[..an]) };
    let sb = unsafe { core::str::from_utf8_unchecked(&b[..bn]) };
    let mut ka = FixBuf::<10>::new(); let mut kb = FixBuf::<10>::new();
    encode_text(sa, &mut ka); encode_text(sb, &mut kb);
    assert!(lex_cmp(ka.as_slice(), kb.as_slice()) == lex_cmp(&a[..an], &b[..bn]), "role=text_order_preserved");
    // text sorts below blob whatever the contents
    let mut kc = FixBuf::<10>::new();
    encode_blob(&b[..bn], &mut kc);
    assert!(lex_cmp(ka.as_slice(), kc.as_slice()) == Less, "role=text_below_blob");
    kani::cover!(an == 2 && bn == 3, "w:different_lengths");
}}

// ---------------------------------------------------------------- cross-type order and composites
fn rank(v: &Value) -> u8 {
    // documented type order: NULL < booleans < numbers < strings < date/time < uuid
    match v { Value::Null => 0, Value::Bool(_) => 1, Value::Int(_) | Value::Float(_) => 2, Value::Text(_) => 3, Value::Blob(_) => 4,
              Value::Date(_) => 5, Value::Timestamp(_) => 6, Value::Uuid(_) => 7 }
}
static UU: [u8; 16] = [7; 16];
fn any_value<'a>(bytes: &'a [u8; 2], n: usize) -> Value<'a> {
    let k: u8 = kani::any();
    kani::assume(k < 9);
    match k {
        0 => Value::Null, 1 => Value::Bool(kani::any()), 2 => Value::Int(kani::any()), 3 => Value::Float(kani::any()),
        4 => Value::Text(unsafe { core::str::from_utf8_unchecked(&bytes[..n]) }), 5 => Value::Blob(&bytes[..n]),
        6 => Value::Date(kani::any()), 7 => Value::Timestamp(kani::any()), _ => Value::Uuid(&UU),
    }
}

// @vt prop=C26 tier=quick bound="all pairs of key::Value of different documented type classes (payload: any scalar; text/blob 0..=2 bytes, text ASCII)" outside="types not in key::Value"
vt_proof! { unwind = 19; fn c26_cross_type_rank_order() {
    let ba: [u8; 2] = kani::any(); let bb: [u8; 2] = kani::any();
    kani::assume(ba[0] < 0x80 && ba[1] < 0x80 && bb[0] < 0x80 && bb[1] < 0x80);
    let (an, bn): (usize, usize) = (kani::any(), kani::any());
    kani::assume(an <= 2 && bn <= 2);
    let a = any_value(&ba, an); let b = any_value(&bb, bn);
    let mut ka = FixBuf::<18>::new(); let mut kb = FixBuf::<18>::new();
    encode_value(&a, &mut ka); encode_value(&b, &mut kb);
    let c = lex_cmp(ka.as_slice(), kb.as_slice());
    kani::cover!(rank(&a) == 2 && rank(&b) == 3, "w:number_vs_text");
    kani::cover!(rank(&a) == 7 && rank(&b) == 0, "w:uuid_vs_null");
    if rank(&a) < rank(&b) { assert!(c == Less, "role=type_rank_order"); }
    if rank(&a) > rank(&b) { assert!(c == Greater, "role=type_rank_order"); }
    // a key is never a proper prefix of a key of another value (composite-key safety), except nothing
    if c != Equal {
        let (s, l) = if ka.n <= kb.n { (&ka, &kb) } else { (&kb, &ka) };
        let mut i = 0; let mut is_prefix = true;
        while i < s.n { if s.b[i] != l.b[i] { is_prefix = false; } i += 1; }
        assert!(!is_prefix, "role=value_keys_prefix_free");
    }
}}

// @vt prop=C26 tier=quick bound="all pairs of 2-column keys (blob 0..=2 bytes, i64) and (i64, i64) and (f64 non-NaN, i64)" outside="more than 2 columns; other column types"
vt_proof! { unwind = 22; fn c26_composite_two_columns() {
    let which: u8 = kani::any(); kani::assume(which < 3);
    let mut ka = FixBuf::<20>::new(); let mut kb = FixBuf::<20>::new();
    let (a2, b2): (i64, i64) = (kani::any(), kani::any());
    let first: Ordering;
    match which {
        0 => { let ba: [u8; 2] = kani::any(); let bb: [u8; 2] = kani::any();
               let (an, bn): (usize, usize) = (kani::any(), kani::any()); kani::assume(an <= 2 && bn <= 2);
               encode_blob(&ba[..an], &mut ka); encode_blob(&bb[..bn], &mut kb); first = lex_cmp(&ba[..an], &bb[..bn]);
               kani::cover!(an == 1 && bn == 2 && ba[0] == bb[0], "w:first_column_is_prefix_of_other"); }
        1 => { let (a1, b1): (i64, i64) = (kani::any(), kani::any());
               encode_int(a1, &mut ka); encode_int(b1, &mut kb); first = a1.cmp(&b1);
               kani::cover!(a1 == 0 && b1 > 0, "w:zero_vs_positive_first_column"); }
        _ => { let (a1, b1): (f64, f64) = (kani::any(), kani::any()); kani::assume(!a1.is_nan() && !b1.is_nan());
               encode_float(a1, &mut ka); encode_float(b1, &mut kb);
               first = if a1 < b1 { Less } else if a1 > b1 { Greater } else { Equal }; }
    }
    encode_int(a2, &mut ka); encode_int(b2, &mut kb);
    let expect = if first != Equal { first } else { a2.cmp(&b2) };
    assert!(lex_cmp(ka.as_slice(), kb.as_slice()) == expect, "role=composite_columnwise_order");
}}

// ---------------------------------------------------------------- vectors and JSON scalars
fn f32_total_lt(a: f32, b: f32) -> bool {
    // IEEE-754 totalOrder restricted to non-NaN: -0.0 < +0.0, otherwise numeric
    if a < b { return true; }
    if a > b { return false; }
    a.is_sign_negative() && !b.is_sign_negative()
}

// @vt prop=C26 tier=quick bound="all pairs of vectors with 0..=2 non-NaN f32 components (incl. +-0, +-inf, subnormals)" outside="vectors longer than 2; NaN components"
vt_proof! { unwind = 16; fn c26_vector_order_roundtrip() {
    let a: [f32; 2] = kani::any(); let b: [f32; 2] = kani::any();
    let (an, bn): (usize, usize) = (kani::any(), kani::any());
    kani::assume(an <= 2 && bn <= 2);
    kani::assume(!a[0].is_nan() && !a[1].is_nan() && !b[0].is_nan() && !b[1].is_nan());
    let mut ka = FixBuf::<13>::new(); let mut kb = FixBuf::<13>::new();
    encode_vector(&a[..an], &mut ka); encode_vector(&b[..bn], &mut kb);
    let c = lex_cmp(ka.as_slice(), kb.as_slice());
    kani::cover!(an == 2 && bn == 2 && a[0] == b[0] && a[1] < b[1], "w:tie_on_first_component");
    if an == bn {
        // numeric order of the first differing component decides (values that compare equal, i.e. +-0, may tie-break either way)
        let mut i = 0; let mut decided = false;
        while i < an {
            if !decided {
                if a[i] < b[i] { assert!(c == Less, "role=vector_order_preserved"); decided = true; }
                else if a[i] > b[i] { assert!(c == Greater, "role=vector_order_preserved"); decided = true; }
                else if a[i].to_bits() != b[i].to_bits() { decided = true; /* -0.0 vs +0.0: order between them not prescribed */ }
            }
            i += 1;
        }
        if !decided { assert!(c == Equal, "role=vector_equal_values_equal_keys"); }
    }
    // decode with a concrete length per branch (a symbolic allocation size is a known CBMC blow-up)
    if an == 0 { vec_rt(&a, 0); } else if an == 1 { vec_rt(&a, 1); } else { vec_rt(&a, 2); }
}}

fn vec_rt(a: &[f32; 2], n: usize) {
    let mut k = FixBuf::<13>::new();
    encode_vector(&a[..n], &mut k);
    match dk(k.as_slice()) {
        (Flat::Vector(v, vl), used) => {
            assert!(used == k.n && vl == n, "role=vector_roundtrip_len");
            let mut i = 0; while i < n { assert!(v[i] == a[i].to_bits(), "role=vector_roundtrip_bits"); i += 1; }
        }
        _ => assert!(false, "role=vector_roundtrip_variant"),
    }
}

// @vt prop=C26 tier=quick bound="all pairs of JSON numbers (non-NaN f64), booleans, null" outside="JSON strings/arrays/objects (see c26_json_string)"
vt_proof! { unwind = 12; fn c26_json_scalar_order_roundtrip() {
    let a: f64 = kani::any(); let b: f64 = kani::any();
    kani::assume(!a.is_nan() && !b.is_nan());
    let mut ka = FixBuf::<9>::new(); let mut kb = FixBuf::<9>::new();
    encode_json(&JsonValue::Number(a), &mut ka); encode_json(&JsonValue::Number(b), &mut kb);
    let c = lex_cmp(ka.as_slice(), kb.as_slice());
    if a < b { assert!(c == Less, "role=json_number_order_preserved"); }
    if a > b { assert!(c == Greater, "role=json_number_order_preserved"); }
    if c == Equal { assert!(a == b, "role=json_number_injective"); }
    assert!(dk(ka.as_slice()) == (Flat::JsonNumber(a.to_bits()), 9), "role=json_number_roundtrip_bits");
    let x: bool = kani::any();
    let mut kx = FixBuf::<2>::new(); let mut kn = FixBuf::<2>::new();
    encode_json(&JsonValue::Bool(x), &mut kx); encode_json(&JsonValue::Null, &mut kn);
    assert!(lex_cmp(kn.as_slice(), kx.as_slice()) == Less, "role=json_null_below_bool");
    assert!(lex_cmp(kx.as_slice(), ka.as_slice()) == Less, "role=json_bool_below_number");
    for_prefix!(kx.b, [type_prefix::JSON_FALSE, type_prefix::JSON_TRUE], {
        assert!(dk(kx.as_slice()) == (Flat::JsonBool(x), 1), "role=json_bool_roundtrip");
    });
    kani::cover!(a < 0.0 && b > 0.0, "w:mixed_sign");
}}

// ---------------------------------------------------------------- Vec<u8> instantiation (the one the database uses)
// @vt prop=C26 tier=quick bound="all pairs of i64 and of f64 (non-NaN), Vec<u8> instantiation of the encoders" outside="none"
vt_proof! { unwind = 11; fn c26_vec_int_float_order() {
    let a: i64 = kani::any(); let b: i64 = kani::any();
    let mut ka: Vec<u8> = Vec::with_capacity(9); let mut kb: Vec<u8> = Vec::with_capacity(9);
    encode_int(a, &mut ka); encode_int(b, &mut kb);
    assert!(lex_cmp(&ka, &kb) == a.cmp(&b), "role=vec_int_order_preserved");
    let x: f64 = kani::any(); let y: f64 = kani::any();
    kani::assume(!x.is_nan() && !y.is_nan());
    let mut kx: Vec<u8> = Vec::with_capacity(9); let mut ky: Vec<u8> = Vec::with_capacity(9);
    encode_float(x, &mut kx); encode_float(y, &mut ky);
    let c = lex_cmp(&kx, &ky);
    if x < y { assert!(c == Less, "role=vec_float_order_preserved"); }
    if x == y { assert!(c == Equal, "role=vec_float_order_preserved"); }
    kani::cover!(x < 0.0 && y < 0.0 && x < y, "w:both_negative_floats");
    core::mem::forget((ka, kb, kx, ky));
}}

// ---------------------------------------------------------------- thorough tier: longer strings
// @vt prop=C26 tier=quick bound="all pairs of byte strings of length 0..=4 (every byte value): blob key order, injectivity, prefix-freeness" outside="strings longer than 4 bytes (thorough: 7)" timeout=1800
vt_proof! { unwind = 14; fn c26_blob_order_prefixfree_len4() {
    let a: [u8; 4] = kani::any(); let b: [u8; 4] = kani::any();
    let (an, bn): (usize, usize) = (kani::any(), kani::any()); kani::assume(an <= 4 && bn <= 4);
    let mut ka = FixBuf::<12>::new(); let mut kb = FixBuf::<12>::new();
    encode_blob(&a[..an], &mut ka); encode_blob(&b[..bn], &mut kb);
    let c = lex_cmp(ka.as_slice(), kb.as_slice());
    let e = lex_cmp(&a[..an], &b[..bn]);
    kani::cover!(an == 4 && bn == 4 && a[3] == 0xFF && b[3] == 0x00 && a[0] == b[0] && a[1] == b[1] && a[2] == b[2], "w:differ_in_last_byte_ff_vs_00");
    assert!(c == e, "role=blob_order_preserved");
    assert!((c == Equal) == (e == Equal), "role=blob_injective");
    if e != Equal {
        let (s, l) = if ka.n <= kb.n { (&ka, &kb) } else { (&kb, &ka) };
        let mut i = 0; let mut is_prefix = true;
        while i < s.n { if s.b[i] != l.b[i] { is_prefix = false; } i += 1; }
        assert!(!is_prefix, "role=blob_prefix_free");
    }
}}

// @vt prop=C26 tier=quick bound="all pairs of 3-column keys (i64, blob 0..=1 byte, i64)" outside="more columns; longer blobs" timeout=1800
vt_proof! { unwind = 26; fn c26_composite_three_columns() {
    let (a1, b1, a3, b3): (i64, i64, i64, i64) = (kani::any(), kani::any(), kani::any(), kani::any());
    let ba: [u8; 1] = kani::any(); let bb: [u8; 1] = kani::any();
    let (an, bn): (usize, usize) = (kani::any(), kani::any()); kani::assume(an <= 1 && bn <= 1);
    let mut ka = FixBuf::<24>::new(); let mut kb = FixBuf::<24>::new();
    encode_int(a1, &mut ka); encode_blob(&ba[..an], &mut ka); encode_int(a3, &mut ka);
    encode_int(b1, &mut kb); encode_blob(&bb[..bn], &mut kb); encode_int(b3, &mut kb);
    let first = a1.cmp(&b1);
    let second = lex_cmp(&ba[..an], &bb[..bn]);
    let expect = if first != Equal { first } else if second != Equal { second } else { a3.cmp(&b3) };
    kani::cover!(first == Equal && second == Equal && a3 != b3, "w:decided_by_third_column");
    assert!(lex_cmp(ka.as_slice(), kb.as_slice()) == expect, "role=composite_columnwise_order");
}}

// @vt prop=C26 tier=quick bound="all pairs of byte strings of length 0..=7 (every byte value): blob key order, injectivity, prefix-freeness" outside="strings longer than 7 bytes (thorough: 12)" timeout=1800
vt_proof! { unwind = 20; fn c26_blob_order_prefixfree_len7() {
    let a: [u8; 7] = kani::any(); let b: [u8; 7] = kani::any();
    let (an, bn): (usize, usize) = (kani::any(), kani::any()); kani::assume(an <= 7 && bn <= 7);
    let mut ka = FixBuf::<18>::new(); let mut kb = FixBuf::<18>::new();
    encode_blob(&a[..an], &mut ka); encode_blob(&b[..bn], &mut kb);
    let c = lex_cmp(ka.as_slice(), kb.as_slice());
    let e = lex_cmp(&a[..an], &b[..bn]);
    kani::cover!(an == 7 && bn == 6, "w:long_strings");
    assert!(c == e, "role=blob_order_preserved");
    assert!((c == Equal) == (e == Equal), "role=blob_injective");
    if e != Equal {
        let (s, l) = if ka.n <= kb.n { (&ka, &kb) } else { (&kb, &ka) };
        let mut i = 0; let mut is_prefix = true;
        while i < s.n { if s.b[i] != l.b[i] { is_prefix = false; } i += 1; }
        assert!(!is_prefix, "role=blob_prefix_free");
    }
}}

// @vt prop=C26 tier=thorough bound="all pairs of byte strings of length 0..=12 (every byte value): blob key order, injectivity, prefix-freeness" outside="strings longer than 12 bytes" timeout=5400 mem=30
vt_proof! { unwind = 30; fn c26_blob_order_prefixfree_len12() {
    let a: [u8; 12] = kani::any(); let b: [u8; 12] = kani::any();
    let (an, bn): (usize, usize) = (kani::any(), kani::any()); kani::assume(an <= 12 && bn <= 12);
    let mut ka = FixBuf::<28>::new(); let mut kb = FixBuf::<28>::new();
    encode_blob(&a[..an], &mut ka); encode_blob(&b[..bn], &mut kb);
    let c = lex_cmp(ka.as_slice(), kb.as_slice());
    let e = lex_cmp(&a[..an], &b[..bn]);
    kani::cover!(an == 12 && bn == 11, "w:long_strings");
    assert!(c == e, "role=blob_order_preserved");
    assert!((c == Equal) == (e == Equal), "role=blob_injective");
    if e != Equal {
        let (s, l) = if ka.n <= kb.n { (&ka, &kb) } else { (&kb, &ka) };
        let mut i = 0; let mut is_prefix = true;
        while i < s.n { if s.b[i] != l.b[i] { is_prefix = false; } i += 1; }
        assert!(!is_prefix, "role=blob_prefix_free");
    }
}}
