//! C23 — decoders of stored bytes reject corruption without crashing.
//! One harness per decoder: arbitrary bytes (bounded length) in, "returns" out — Kani's built-in panic, bounds,
//! arithmetic-overflow and unwinding checks are the property. Harness-level assertions only add
//! "no out-of-input reads" style facts where the API exposes a consumed length.
use turdb::encoding::key::decode_key;
use turdb::records::types::{ColumnDef, DataType};
use turdb::records::{RecordView, Schema};
use turdb::storage::{validate_page, PageHeader, WalFrameHeader};

fn schema_of(types: &[DataType]) -> Schema {
    let mut cols = Vec::with_capacity(types.len());
    let mut i = 0;
    while i < types.len() { cols.push(ColumnDef::new("c", types[i])); i += 1; }
    Schema::new(cols)
}

// @vt prop=C23 tier=quick bound="decode_key on arbitrary input of 0..=11 bytes whose first byte is a fixed-width type prefix (null, bool, numbers, date/time, uuid, inet, macaddr, enum), or an unknown prefix" outside="longer inputs; the variable-width / recursive prefixes (c23_decode_key_text_blob, c23_decode_key_nested)" timeout=1800
vt_proof! { unwind = 4; fn c23_decode_key_fixed_prefixes() {
    let mut data: [u8; 11] = kani::any();
    let n: usize = kani::any(); kani::assume(n <= 11);
    let p = data[0];
    // text/blob/array/tuple/range/composite/domain/vector/json prefixes are handled by the sibling harnesses
    kani::assume(!(p == 0x20 || p == 0x21 || (p >= 0x50 && p <= 0x56) || p == 0x60 || p == 0x61 || p == 0x62 || p == 0x64 || p == 0x65 || p == 0x70));
    macro_rules! go { ($($c:expr),+) => { $( if p == $c { data[0] = $c; let r = core::mem::ManuallyDrop::new(decode_key(&data[..n])); if let Ok((_, used)) = &*r { assert!(*used <= n, "role=decode_key_consumes_within_input"); } } else )+ { data[0] = 0x7F; let r = core::mem::ManuallyDrop::new(decode_key(&data[..n])); assert!(r.is_err(), "role=unknown_prefix_is_an_error"); } }; }
    go!(0x01u8, 0x02u8, 0x03u8, 0x10u8, 0x11u8, 0x12u8, 0x13u8, 0x14u8, 0x15u8, 0x16u8, 0x17u8, 0x18u8, 0x19u8, 0x30u8, 0x31u8, 0x32u8, 0x33u8, 0x34u8, 0x40u8, 0x41u8, 0x42u8, 0x63u8);
    kani::cover!(p == 0x33 && n == 11, "w:timestamptz_exact_length");
    kani::cover!(p == 0x41 && n == 3, "w:truncated_inet");
}}

// @vt prop=C23 tier=quick bound="decode_key on arbitrary input of 1..=8 bytes starting with the TEXT or BLOB prefix (escape sequences, truncated escapes, invalid UTF-8)" outside="longer inputs" timeout=1800
vt_proof! { unwind = 10; fn c23_decode_key_text_blob() {
    let mut data: [u8; 8] = kani::any();
    let n: usize = kani::any(); kani::assume(n >= 1 && n <= 8);
    let text: bool = kani::any();
    data[0] = if text { 0x20 } else { 0x21 };
    if text { data[0] = 0x20; let r = core::mem::ManuallyDrop::new(decode_key(&data[..n])); if let Ok((_, used)) = &*r { assert!(*used <= n, "role=decode_key_consumes_within_input"); kani::cover!(true, "w:text_decodes"); } }
    else { data[0] = 0x21; let r = core::mem::ManuallyDrop::new(decode_key(&data[..n])); if let Ok((_, used)) = &*r { assert!(*used <= n, "role=decode_key_consumes_within_input"); } else { kani::cover!(n == 8, "w:blob_without_terminator"); } }
}}

// @vt prop=C23 tier=quick bound="RecordView over arbitrary record bytes of 2..=9 bytes, schema (int4, blob): is_null and both getters" outside="longer records; other schemas" timeout=1800 mem=16
vt_proof! { unwind = 11; fn c23_record_view_arbitrary_bytes() {
    let schema = core::mem::ManuallyDrop::new(schema_of(&[DataType::Int4, DataType::Blob]));
    let data: [u8; 9] = kani::any();
    let n: usize = kani::any(); kani::assume(n >= 2 && n <= 9);
    let view = core::mem::ManuallyDrop::new(RecordView::new(&data[..n], &schema));
    if let Ok(v) = &*view {
        kani::cover!(true, "w:view_constructed");
        let _ = v.is_null(0); let _ = v.is_null(1);
        let a = core::mem::ManuallyDrop::new(v.get_int4(0));
        let d = core::mem::ManuallyDrop::new(v.get_blob(1));
        if let Ok(x) = &*d { assert!(x.len() <= n, "role=blob_slice_within_record"); }
        kani::cover!(a.is_ok() && d.is_ok(), "w:some_getters_succeed");
    }
}}

// (a 4-column variant of this harness ran out of 44 GB and was removed: RecordView over schemas with > 2 columns is outside the claim)

// @vt prop=C23 tier=quick bound="PageHeader::from_bytes / validate_page on arbitrary 16-byte headers (rest of the page zero); WalFrameHeader accessors on arbitrary 32 bytes" outside="page bodies (c23_leaf_accessors_arbitrary_page)" timeout=1800
vt_proof! { unwind = 4; fn c23_page_and_wal_headers() {
    let mut page = [0u8; turdb::storage::PAGE_SIZE];
    let h: [u8; 16] = kani::any();
    page[..16].copy_from_slice(&h);
    let r = core::mem::ManuallyDrop::new(validate_page(&page));
    kani::cover!(r.is_ok(), "w:some_header_validates");
    kani::cover!(r.is_err(), "w:some_header_is_rejected");
    let ph = core::mem::ManuallyDrop::new(PageHeader::from_bytes(&page));
    if let Ok(p) = &*ph { let _ = (p.page_type(), p.cell_count(), p.free_space(), p.next_leaf()); }
    let short: [u8; 15] = kani::any();
    let e = core::mem::ManuallyDrop::new(PageHeader::from_bytes(&short));
    assert!(e.is_err(), "role=short_header_is_an_error");
}}

// @vt prop=C23 tier=quick bound="catalog constraint decoder on arbitrary input of 0..=7 bytes at position 0: every constraint tag (NOT NULL, PK, UNIQUE, FOREIGN KEY with names and the optional 2-byte action trailer, CHECK, AUTO_INCREMENT, unknown tags)" outside="longer inputs (thorough: 9 bytes); positions > 0; the rest of the catalog file" timeout=1800 mem=16
vt_proof! { unwind = 12; fn c23_catalog_constraint_decoder() {
    use turdb::schema::persistence::verif_hooks::deserialize_constraint;
    let mut data: [u8; 7] = kani::any();
    let n: usize = kani::any(); kani::assume(n <= 7);
    let t = data[0];
    macro_rules! go { () => {{
        let r = core::mem::ManuallyDrop::new(deserialize_constraint(&data[..n], 0));
        if let Ok((_, used)) = &*r { assert!(*used <= n, "role=constraint_decoder_consumes_within_input"); kani::cover!(*used == n && n == 7, "w:whole_input_consumed"); }
    }}; }
    // concrete tag per branch (the FOREIGN KEY / CHECK arms allocate strings of the decoded lengths)
    if t == 0 { data[0] = 0; go!() } else if t == 1 { data[0] = 1; go!() } else if t == 2 { data[0] = 2; go!() }
    else if t == 3 { data[0] = 3; go!() } else if t == 4 { data[0] = 4; go!() } else if t == 5 { data[0] = 5; go!() }
    else { data[0] = 9; let r = core::mem::ManuallyDrop::new(deserialize_constraint(&data[..n], 0)); assert!(r.is_err() , "role=unknown_constraint_tag_is_an_error"); }
    kani::cover!(t == 3 && n == 6, "w:foreign_key_with_one_trailing_byte");
}}

// @vt prop=C23 tier=thorough bound="catalog constraint decoder on arbitrary input of 0..=9 bytes at position 0: every constraint tag (NOT NULL, PK, UNIQUE, FOREIGN KEY with names and the optional 2-byte action trailer, CHECK, AUTO_INCREMENT, unknown tags)" outside="longer inputs; positions > 0; the rest of the catalog file" timeout=5400 mem=30
vt_proof! { unwind = 12; fn c23_catalog_constraint_decoder_9() {
    use turdb::schema::persistence::verif_hooks::deserialize_constraint;
    let mut data: [u8; 9] = kani::any();
    let n: usize = kani::any(); kani::assume(n <= 9);
    let t = data[0];
    macro_rules! go { () => {{
        let r = core::mem::ManuallyDrop::new(deserialize_constraint(&data[..n], 0));
        if let Ok((_, used)) = &*r { assert!(*used <= n, "role=constraint_decoder_consumes_within_input"); kani::cover!(*used == n && n == 9, "w:whole_input_consumed"); }
    }}; }
    // concrete tag per branch (the FOREIGN KEY / CHECK arms allocate strings of the decoded lengths)
    if t == 0 { data[0] = 0; go!() } else if t == 1 { data[0] = 1; go!() } else if t == 2 { data[0] = 2; go!() }
    else if t == 3 { data[0] = 3; go!() } else if t == 4 { data[0] = 4; go!() } else if t == 5 { data[0] = 5; go!() }
    else { data[0] = 9; let r = core::mem::ManuallyDrop::new(deserialize_constraint(&data[..n], 0)); assert!(r.is_err() , "role=unknown_constraint_tag_is_an_error"); }
    kani::cover!(t == 3 && n == 6, "w:foreign_key_with_one_trailing_byte");
}}

// @vt prop=C23 tier=quick feat=sp bound="LeafNode::value_at / value_len_at / key_at on a leaf page whose slot 0 points at a cell with a 2-byte key followed by 9 ARBITRARY bytes (any varint, incl. 9-byte forms encoding lengths up to 2^64-1); LeafNodeMut::free_space on an arbitrary header" outside="arbitrary slot offsets (symbolic page offsets); other accessors" timeout=1800 mem=16
vt_proof! { unwind = 4; fn c23_leaf_accessors_corrupt_cell() {
    use turdb::btree::{LeafNode, LeafNodeMut};
    let mut page = [0u8; turdb::storage::PAGE_SIZE];
    page[0] = 0x02; page[2] = 1; page[4] = 32; page[6] = 0xF0; page[7] = 0x01; // leaf, 1 cell, free_start 32, free_end 496
    let off = 496usize;
    page[24] = 1; page[25] = 2; page[28] = (off & 0xFF) as u8; page[29] = (off >> 8) as u8; page[30] = 2; // slot 0: prefix, offset, key_len 2
    page[off] = 1; page[off + 1] = 2;
    let v: [u8; 9] = kani::any();
    page[off + 2..off + 11].copy_from_slice(&v);
    let leaf = core::mem::ManuallyDrop::new(LeafNode::from_page(&page));
    if let Ok(l) = &*leaf {
        let k = core::mem::ManuallyDrop::new(l.key_at(0)); assert!(k.is_ok(), "role=key_readable");
        let r = core::mem::ManuallyDrop::new(l.value_at(0));
        let n = core::mem::ManuallyDrop::new(l.value_len_at(0));
        if let Ok(x) = &*r { assert!(x.len() <= 14, "role=value_slice_within_page"); kani::cover!(x.len() == 3, "w:some_value_decodes"); }
        kani::cover!(r.is_err(), "w:corrupt_length_rejected");
        let _ = n;
    }
    // header with arbitrary free_start / free_end
    let h: [u8; 4] = kani::any();
    page[4] = h[0]; page[5] = h[1]; page[6] = h[2]; page[7] = h[3];
    let m = core::mem::ManuallyDrop::new(LeafNodeMut::from_page(&mut page));
    if let Ok(l) = &*m { let _ = l.free_space(); }
}}

// @vt prop=C23 tier=quick bound="WAL frame header: undo-frame packing for every table id < 2^24 and every 32-bit txn id; frame type / file id accessors on every 64-bit file_id field" outside="reading frames from a segment file (file I/O, CRC)" timeout=1800
vt_proof! { unwind = 2; fn c23_wal_frame_header_packing() {
    use turdb::storage::WalFrameType;
    let (t, x): (u32, u32) = (kani::any(), kani::any());
    kani::assume(t < (1 << 24));
    let h = WalFrameHeader::new_undo_frame(kani::any(), kani::any(), kani::any(), kani::any(), kani::any(), t, x);
    assert!(h.frame_type() == WalFrameType::Undo, "role=undo_frame_is_recognised");
    assert!(h.undo_table_id() == t && h.undo_txn_id() == x, "role=undo_frame_ids_roundtrip");
    let any = WalFrameHeader::new_with_file_id(0, 0, 0, 0, 0, kani::any());
    let _ = (any.frame_type(), any.actual_file_id(), any.undo_table_id(), any.undo_txn_id());
    assert!(any.actual_file_id() < (1u64 << 56), "role=file_id_excludes_type_byte");
    kani::cover!(t == (1 << 24) - 1 && x == u32::MAX, "w:extreme_ids");
}}
