//! C32 — JSONB builder / view / lookup API (src/records/jsonb.rs, OwnedValue::jsonb_get*): what the builder encodes the
//! view reads back; every key is found with its value, every array element by index, nested containers are found where
//! the builder put them. The JSON *text* parser (src/parsing/json.rs: parse::<f64>, escapes) is outside these harnesses.
//!
//! Oracle note. The view is zero-copy: a `JsonbValue::String(&str)` / nested `JsonbView(&[u8])` points into the document.
//! CBMC loses the target of a pointer that travels through the niche-packed `Result<JsonbValue, eyre::Report>` (the
//! enum is copied with a type-punned `byte_extract`; a later read through that pointer returns an unconstrained byte —
//! measured, see DESIGN 0.2). So the harnesses check *where* a string / nested view points (address and length, which
//! survive as numbers) and read the bytes at that place through the document buffer itself; nested containers are
//! re-opened with `JsonbView::new(&buf[off..off + len])` after their address and length have been checked.
use core::mem::ManuallyDrop;
use turdb::records::jsonb::{JsonbBuilder, JsonbBuilderValue as BV, JsonbValue as JV, JsonbView};
use turdb::types::OwnedValue;

fn key1(b: u8) -> String { let mut s = String::with_capacity(1); s.push(b as char); s }
fn key2(k: &[u8; 2]) -> String { let mut s = String::with_capacity(2); s.push(k[0] as char); s.push(k[1] as char); s }
fn any_ascii() -> u8 { let b: u8 = kani::any(); kani::assume(b < 0x80); b }
fn num_is(v: &JV<'_>, bits: u64) -> bool { match v { JV::Number(n) => n.to_bits() == bits, _ => false } }
fn bool_is(v: &JV<'_>, b: bool) -> bool { match v { JV::Bool(x) => *x == b, _ => false } }
fn is_null(v: &JV<'_>) -> bool { matches!(v, JV::Null) }
/// the string value is the `len` bytes at offset `off` of the document
fn str_at(v: &JV<'_>, buf: &[u8], off: usize, len: usize) -> bool {
    match v { JV::String(s) => s.len() == len && s.as_ptr() as usize == buf.as_ptr() as usize + off, _ => false }
}
fn view_at(d: &[u8], buf: &[u8], off: usize, len: usize) -> bool { d.len() == len && d.as_ptr() as usize == buf.as_ptr() as usize + off }



// @vt prop=C32 tier=quick bound="root scalars: any f64 bit pattern, any bool, null, any string of 2 ASCII bytes: as_value() returns the built scalar" outside="the JSON text parser; longer strings; non-ASCII" timeout=1800 mem=16
vt_proof_ascii! { unwind = 10; fn c32_root_scalars() {
    let bits: u64 = kani::any(); let bv: bool = kani::any(); let (c0, c1) = (any_ascii(), any_ascii());
    {
        let buf = ManuallyDrop::new(JsonbBuilder::new_number(f64::from_bits(bits)).build());
        let r = ManuallyDrop::new(JsonbView::new(&buf).and_then(|v| v.as_value()));
        assert!(matches!(&*r, Ok(v) if num_is(v, bits)), "role=root_number_round_trips");
    }
    {
        let buf = ManuallyDrop::new(JsonbBuilder::new_bool(bv).build());
        let r = ManuallyDrop::new(JsonbView::new(&buf).and_then(|v| v.as_value()));
        assert!(matches!(&*r, Ok(v) if bool_is(v, bv)), "role=root_bool_round_trips");
    }
    {
        let buf = ManuallyDrop::new(JsonbBuilder::new_null().build());
        let r = ManuallyDrop::new(JsonbView::new(&buf).and_then(|v| v.as_value()));
        assert!(matches!(&*r, Ok(v) if is_null(v)), "role=root_null_round_trips");
    }
    {
        let buf = ManuallyDrop::new(JsonbBuilder::new_string(key2(&[c0, c1])).build());
        let r = ManuallyDrop::new(JsonbView::new(&buf).and_then(|v| v.as_value()));
        assert!(buf.len() == 6 && buf[4] == c0 && buf[5] == c1, "role=string_bytes_are_stored_in_the_document");
        assert!(matches!(&*r, Ok(v) if str_at(v, &buf, 4, 2)), "role=root_string_round_trips");
    }
    kani::cover!(bv, "w:true");
}}



// ---------------------------------------------------------------------------------------------------------------
// Containers. The builder is a recursive encoder over an enum whose variant the symbolic executor cannot see as a
// constant, so every arm (including the object arm with its sort) is explored at every level up to the unwinding bound:
// a 4-element array did not finish in 25 minutes. The round trip is therefore split in two halves that meet at the
// documented byte format (the reference encoder below, written from the module documentation of jsonb.rs):
//   view half    : for every document of a shape, the view over its reference encoding finds every member / element;
//   builder half : root scalars only (c32_root_scalars); a 2-element array / 1-member object through the builder was
//                  still unwinding sort and memcmp loops after 8 minutes and is outside the claim.
const KEY: u32 = 1 << 31;
const VAR: u32 = 1 << 30;
fn put32(b: &mut [u8], at: usize, v: u32) { let x = v.to_le_bytes(); b[at] = x[0]; b[at + 1] = x[1]; b[at + 2] = x[2]; b[at + 3] = x[3]; }
fn put_str1(b: &mut [u8], at: usize, c: u8) { b[at] = 1; b[at + 1] = 0; b[at + 2] = c; }
fn put_f64(b: &mut [u8], at: usize, bits: u64) {
    let x = bits.to_le_bytes();
    b[at] = x[0]; b[at + 1] = x[1]; b[at + 2] = x[2]; b[at + 3] = x[3]; b[at + 4] = x[4]; b[at + 5] = x[5]; b[at + 6] = x[6]; b[at + 7] = x[7];
}

/// reference encoding of {k0: number, k1: bool, k2: null, k3: "c"} with k0 < k1 < k2 < k3 (1-byte keys)
fn ref_object4(k: [u8; 4], bits: u64, bv: bool, c: u8) -> [u8; 59] {
    let mut b = [0u8; 59];
    put32(&mut b, 0, 8);                                   // type 0 (object), 8 entries
    put32(&mut b, 4, KEY | VAR | 0);  put32(&mut b, 8, VAR | (4 << 24) | 3);
    put32(&mut b, 12, KEY | VAR | 11); put32(&mut b, 16, (3 << 24) | bv as u32);
    put32(&mut b, 20, KEY | VAR | 14); put32(&mut b, 24, 2 << 24);
    put32(&mut b, 28, KEY | VAR | 17); put32(&mut b, 32, VAR | (5 << 24) | 20);
    let d = 36;
    put_str1(&mut b, d, k[0]); put_f64(&mut b, d + 3, bits);
    put_str1(&mut b, d + 11, k[1]); put_str1(&mut b, d + 14, k[2]); put_str1(&mut b, d + 17, k[3]);
    put_str1(&mut b, d + 20, c);
    b
}

// @vt prop=C32 tier=quick bound="view over the reference encoding of {k0: number, k1: bool, k2: null, k3: string of 1 byte}: any 4 ascending 1-byte ASCII keys, any f64 bit pattern, bool and ASCII byte; get() of each key, of any absent 1-byte key, object_len, OwnedValue::jsonb_get" outside="the JSON text parser; the builder for this shape (builder half: c32_builder_*); longer keys; non-ASCII" timeout=1800 mem=24
vt_proof_ascii! { unwind = 5; fn c32_view_object_4_keys() {
    let k = [any_ascii(), any_ascii(), any_ascii(), any_ascii()];
    kani::assume(k[0] < k[1] && k[1] < k[2] && k[2] < k[3]);
    let bits: u64 = kani::any(); let bv: bool = kani::any(); let c = any_ascii();
    let buf = ref_object4(k, bits, bv, c);
    let view = match JsonbView::new(&buf) { Ok(v) => v, Err(e) => { core::mem::forget(e); panic!("role=reference_object_is_a_view"); } };
    assert!(matches!(view.object_len(), Ok(4)), "role=object_len_is_member_count");
    let (s0, s1, s2, s3) = (key1(k[0]), key1(k[1]), key1(k[2]), key1(k[3]));
    let r0 = ManuallyDrop::new(view.get(&s0));
    let r1 = ManuallyDrop::new(view.get(&s1));
    let r2 = ManuallyDrop::new(view.get(&s2));
    let r3 = ManuallyDrop::new(view.get(&s3));
    assert!(matches!(&*r0, Ok(Some(v)) if num_is(v, bits)), "role=every_key_looks_up_to_its_value");
    assert!(matches!(&*r1, Ok(Some(v)) if bool_is(v, bv)), "role=every_key_looks_up_to_its_value");
    assert!(matches!(&*r2, Ok(Some(v)) if is_null(v)), "role=every_key_looks_up_to_its_value");
    assert!(matches!(&*r3, Ok(Some(v)) if str_at(v, &buf, 36 + 22, 1)), "role=every_key_looks_up_to_its_value");
    let ka = any_ascii(); kani::assume(ka != k[0] && ka != k[1] && ka != k[2] && ka != k[3]);
    let sa = key1(ka);
    let ra = ManuallyDrop::new(view.get(&sa));
    assert!(matches!(&*ra, Ok(None)), "role=absent_key_is_not_found");
    kani::cover!(ka > k[3], "w:absent_key_after_all");
    kani::cover!(ka < k[0], "w:absent_key_before_all");
    kani::cover!(ka > k[1] && ka < k[2], "w:absent_key_in_the_middle");
    core::mem::forget((s0, s1, s2, s3, sa));
}}

/// reference encoding of [number, "c", bool, null]
fn ref_array4(bits: u64, c: u8, bv: bool) -> [u8; 31] {
    let mut b = [0u8; 31];
    put32(&mut b, 0, (1 << 28) | 4);
    put32(&mut b, 4, VAR | (4 << 24) | 0); put32(&mut b, 8, VAR | (5 << 24) | 8);
    put32(&mut b, 12, (3 << 24) | bv as u32); put32(&mut b, 16, 2 << 24);
    put_f64(&mut b, 20, bits); put_str1(&mut b, 28, c);
    b
}

// @vt prop=C32 tier=quick bound="view over the reference encoding of [number, string of 1 ASCII byte, bool, null] with symbolic contents: array_len, array_get at every index 0..=4, get() on an array is an error" outside="the JSON text parser; the builder for this shape; longer arrays/strings" timeout=1800 mem=16
vt_proof_ascii! { unwind = 5; fn c32_view_array_4() {
    let bits: u64 = kani::any(); let bv: bool = kani::any(); let c = any_ascii();
    let buf = ref_array4(bits, c, bv);
    let view = match JsonbView::new(&buf) { Ok(v) => v, Err(e) => { core::mem::forget(e); panic!("role=reference_array_is_a_view"); } };
    assert!(matches!(view.array_len(), Ok(4)), "role=array_len_is_element_count");
    let e0 = ManuallyDrop::new(view.array_get(0));
    let e1 = ManuallyDrop::new(view.array_get(1));
    let e2 = ManuallyDrop::new(view.array_get(2));
    let e3 = ManuallyDrop::new(view.array_get(3));
    let e4 = ManuallyDrop::new(view.array_get(4));
    assert!(matches!(&*e0, Ok(Some(v)) if num_is(v, bits)), "role=array_element_retrievable_by_index");
    assert!(matches!(&*e1, Ok(Some(v)) if str_at(v, &buf, 30, 1)), "role=array_element_retrievable_by_index");
    assert!(matches!(&*e2, Ok(Some(v)) if bool_is(v, bv)), "role=array_element_retrievable_by_index");
    assert!(matches!(&*e3, Ok(Some(v)) if is_null(v)), "role=array_element_retrievable_by_index");
    assert!(matches!(&*e4, Ok(None)), "role=index_past_the_end_is_none");
    kani::cover!(bv && c == b'"', "w:true_and_quote_character");
}}

/// reference encoding of {ka: {kb: number}, kd: [bool]} with ka < kd
fn ref_nested(ka: u8, kb: u8, kd: u8, bits: u64, bv: bool) -> [u8; 65] {
    let mut b = [0u8; 65];
    put32(&mut b, 0, 4);
    put32(&mut b, 4, KEY | VAR | 0);   put32(&mut b, 8, VAR | (0 << 24) | 3);
    put32(&mut b, 12, KEY | VAR | 30); put32(&mut b, 16, VAR | (1 << 24) | 33);
    let d = 20;
    put_str1(&mut b, d, ka);
    put32(&mut b, d + 3, 23);          // nested object {kb: number}: 4 + 8 + 3 + 8 = 23 bytes at 27..50
    let o = d + 7;
    put32(&mut b, o, 2); put32(&mut b, o + 4, KEY | VAR | 0); put32(&mut b, o + 8, VAR | (4 << 24) | 3);
    put_str1(&mut b, o + 12, kb); put_f64(&mut b, o + 15, bits);
    put_str1(&mut b, d + 30, kd);
    put32(&mut b, d + 33, 8);          // nested array [bool]: 4 + 4 = 8 bytes at 57..65
    let a = d + 37;
    put32(&mut b, a, (1 << 28) | 1); put32(&mut b, a + 4, (3 << 24) | bv as u32);
    b
}

// @vt prop=C32 tier=quick bound="view over the reference encoding of {ka: {kb: number}, kd: [bool]} (ka < kd, any 1-byte ASCII keys, any f64 bits / bool): get(ka) is the nested object at its place, its member looks up in the re-opened nested view, get_path([ka]) == get(ka)" outside="the JSON text parser; the builder for this shape; depth > 2" timeout=1800 mem=24
vt_proof_ascii! { unwind = 5; fn c32_view_nested_object() {
    let (ka, kb, kd) = (any_ascii(), any_ascii(), any_ascii()); kani::assume(ka < kd);
    let bits: u64 = kani::any(); let bv: bool = kani::any();
    let buf = ref_nested(ka, kb, kd, bits, bv);
    let view = match JsonbView::new(&buf) { Ok(v) => v, Err(e) => { core::mem::forget(e); panic!("role=reference_object_is_a_view"); } };
    let (sa, sb) = (key1(ka), key1(kb));
    let step = ManuallyDrop::new(view.get(&sa));
    assert!(matches!(&*step, Ok(Some(JV::Object(v))) if view_at(v.data(), &buf, 27, 23)), "role=nested_object_is_found_where_it_was_built");
    let p1 = ManuallyDrop::new(view.get_path(&[&sa]));
    assert!(matches!(&*p1, Ok(Some(JV::Object(v))) if view_at(v.data(), &buf, 27, 23)), "role=path_lookup_agrees_with_stepwise_lookup");
    let inner_view = match JsonbView::new(&buf[27..50]) { Ok(v) => v, Err(e) => { core::mem::forget(e); panic!("role=nested_object_is_a_view"); } };
    let q = ManuallyDrop::new(inner_view.get(&sb));
    assert!(matches!(&*q, Ok(Some(v)) if num_is(v, bits)), "role=every_key_looks_up_to_its_value");
    kani::cover!(kb > kd, "w:inner_key_greater_than_outer_keys");
    core::mem::forget((sa, sb));
}}

// @vt prop=C32 tier=quick bound="same document: get(kd) is the nested array at its place and its element is retrievable from the re-opened view; get_path([kd, kb]) is None (a path through a non-object); get_path([ka, kb]) finds the number" outside="as c32_view_nested_object" timeout=1800 mem=24
vt_proof_ascii! { unwind = 5; fn c32_view_nested_array_and_paths() {
    let (ka, kb, kd) = (any_ascii(), any_ascii(), any_ascii()); kani::assume(ka < kd);
    let bits: u64 = kani::any(); let bv: bool = kani::any();
    let buf = ref_nested(ka, kb, kd, bits, bv);
    let view = match JsonbView::new(&buf) { Ok(v) => v, Err(e) => { core::mem::forget(e); panic!("role=reference_object_is_a_view"); } };
    let (sa, sb, sd) = (key1(ka), key1(kb), key1(kd));
    let a = ManuallyDrop::new(view.get(&sd));
    assert!(matches!(&*a, Ok(Some(JV::Array(v))) if view_at(v.data(), &buf, 57, 8)), "role=nested_array_is_found_where_it_was_built");
    let av = match JsonbView::new(&buf[57..65]) { Ok(v) => v, Err(e) => { core::mem::forget(e); panic!("role=nested_array_is_a_view"); } };
    let e0 = ManuallyDrop::new(av.array_get(0));
    assert!(matches!(&*e0, Ok(Some(v)) if bool_is(v, bv)), "role=array_element_retrievable_by_index");
    let p2 = ManuallyDrop::new(view.get_path(&[&sd, &sb]));
    assert!(matches!(&*p2, Ok(None)), "role=path_through_non_object_is_none");
    let p3 = ManuallyDrop::new(view.get_path(&[&sa, &sb]));
    assert!(matches!(&*p3, Ok(Some(v)) if num_is(v, bits)), "role=path_lookup_agrees_with_stepwise_lookup");
    kani::cover!(bv, "w:true");
    core::mem::forget((sa, sb, sd));
}}

/// reference encoding of {"a": bool, "ab": null, "cd": bool} — keys [a], [a, b], [c, d] with "ab" < "cd"
fn ref_object_prefix_keys(a: u8, b: u8, c: u8, d: u8, v0: bool, v2: bool) -> [u8; 39] {
    let mut buf = [0u8; 39];
    put32(&mut buf, 0, 6);
    put32(&mut buf, 4, KEY | VAR | 0);  put32(&mut buf, 8, (3 << 24) | v0 as u32);
    put32(&mut buf, 12, KEY | VAR | 3); put32(&mut buf, 16, 2 << 24);
    put32(&mut buf, 20, KEY | VAR | 7); put32(&mut buf, 24, (3 << 24) | v2 as u32);
    let dd = 28;
    buf[dd] = 1; buf[dd + 1] = 0; buf[dd + 2] = a;
    buf[dd + 3] = 2; buf[dd + 4] = 0; buf[dd + 5] = a; buf[dd + 6] = b;
    buf[dd + 7] = 2; buf[dd + 8] = 0; buf[dd + 9] = c; buf[dd + 10] = d;
    buf
}

// @vt prop=C32 tier=quick bound="view over the reference encoding of a 3-member object whose first key is a proper prefix of the second: keys [a], [a,b], [c,d] (any ASCII bytes with [a,b] < [c,d]); get() of each key, of an absent 1-byte key and of an absent 2-byte key (including ones that extend or are extended by a present key)" outside="the JSON text parser; the builder for this shape; keys longer than 2 bytes; non-ASCII" timeout=1800 mem=24
vt_proof_ascii! { unwind = 5; fn c32_view_object_prefix_keys() {
    let (a, b, c, d) = (any_ascii(), any_ascii(), any_ascii(), any_ascii());
    kani::assume(a < c || (a == c && b < d));
    let v0: bool = kani::any(); let v2: bool = kani::any();
    let buf = ref_object_prefix_keys(a, b, c, d, v0, v2);
    let view = match JsonbView::new(&buf) { Ok(v) => v, Err(e) => { core::mem::forget(e); panic!("role=reference_object_is_a_view"); } };
    let (s0, s1, s2) = (key1(a), key2(&[a, b]), key2(&[c, d]));
    let r0 = ManuallyDrop::new(view.get(&s0));
    let r1 = ManuallyDrop::new(view.get(&s1));
    let r2 = ManuallyDrop::new(view.get(&s2));
    assert!(matches!(&*r0, Ok(Some(v)) if bool_is(v, v0)), "role=every_key_looks_up_to_its_value");
    assert!(matches!(&*r1, Ok(Some(v)) if is_null(v)), "role=every_key_looks_up_to_its_value");
    assert!(matches!(&*r2, Ok(Some(v)) if bool_is(v, v2)), "role=every_key_looks_up_to_its_value");
    let x = any_ascii(); kani::assume(x != a);
    let sx = key1(x);
    let rx = ManuallyDrop::new(view.get(&sx));
    assert!(matches!(&*rx, Ok(None)), "role=absent_key_is_not_found");
    let (y, z) = (any_ascii(), any_ascii()); kani::assume(!(y == a && z == b) && !(y == c && z == d));
    let sy = key2(&[y, z]);
    let ry = ManuallyDrop::new(view.get(&sy));
    assert!(matches!(&*ry, Ok(None)), "role=absent_key_is_not_found");
    kani::cover!(x == c, "w:absent_key_is_a_prefix_of_a_present_key");
    kani::cover!(y == a && z != b, "w:absent_key_extends_a_present_key");
    kani::cover!(a == c, "w:all_keys_share_the_first_byte");
    core::mem::forget((s0, s1, s2, sx, sy));
}}
