//! C16 — aggregates and GROUP BY (kernels): the aggregate state machine (`sql::state::AggregateState`, through the
//! hook wrappers) against an SQL fold, and the group-key builder (`sql::util::compute_group_key_for_dynamic`):
//! two rows fall into the same group iff their grouping values are pairwise not distinct.
use turdb::sql::executor::{AggregateFunction, ExecutorRow};
use turdb::sql::state::verif_hooks::{agg_finalize, agg_new, agg_update};
use turdb::sql::util::compute_group_key_for_dynamic;
use turdb::types::Value;

#[derive(Clone, Copy)]
enum Cell { Null, Int(i64) }
fn any_cell() -> Cell { if kani::any() { Cell::Null } else { Cell::Int(kani::any()) } }
fn val(c: Cell) -> Value<'static> { match c { Cell::Null => Value::Null, Cell::Int(i) => Value::Int(i) } }

/// Integer column, 0..=3 rows (possibly NULL), each aggregate against the SQL definition.
fn fold_int(nrows: usize) {
    let cells = [any_cell(), any_cell(), any_cell()];
    let which: u8 = kani::any(); kani::assume(which < 5);
    let f = match which { 0 => AggregateFunction::Count { distinct: false }, 1 => AggregateFunction::Sum { column: 0 }, 2 => AggregateFunction::Avg { column: 0 },
                          3 => AggregateFunction::Min { column: 0 }, _ => AggregateFunction::Max { column: 0 } };
    // keep the exact sum inside i64 so that "overflow must be an error" is a separate role (c16_sum_overflow)
    let mut exact: i128 = 0; let mut nn: i64 = 0; let mut mn = i64::MAX; let mut mx = i64::MIN;
    let mut i = 0;
    while i < 3 { if i < nrows { if let Cell::Int(v) = cells[i] { exact += v as i128; nn += 1; if v < mn { mn = v; } if v > mx { mx = v; } } } i += 1; }
    let mut run: i128 = 0; let mut ok = true;
    let mut i = 0; while i < 3 { if i < nrows { if let Cell::Int(v) = cells[i] { run += v as i128; if run > i64::MAX as i128 || run < i64::MIN as i128 { ok = false; } } } i += 1; }
    kani::assume(ok);
    let mut st = agg_new();
    let mut i = 0;
    while i < 3 { if i < nrows { let row = [val(cells[i])]; agg_update(&mut st, &f, &ExecutorRow::new(&row)); } i += 1; }
    let out = agg_finalize(&st, &f);
    kani::cover!(nrows == 3 && nn == 2, "w:null_among_values");
    kani::cover!(nrows == 0, "w:empty_input");
    match which {
        0 => assert!(matches!(out, Value::Int(c) if c == nrows as i64), "role=count_star_counts_rows"),
        1 => { if nn == 0 { assert!(matches!(out, Value::Null), "role=sum_of_no_values_is_null"); }
               else { assert!(matches!(out, Value::Int(s) if s as i128 == exact), "role=sum_ignores_nulls_and_adds_exactly"); } }
        2 => { if nn == 0 { assert!(matches!(out, Value::Null), "role=avg_of_no_values_is_null"); }
               else { assert!(matches!(out, Value::Float(a) if a == (exact as f64) / (nn as f64)), "role=avg_is_sum_over_count_of_non_null"); } }
        3 => { if nn == 0 { assert!(matches!(out, Value::Null), "role=min_of_no_values_is_null"); } else { assert!(matches!(out, Value::Int(m) if m == mn), "role=min_ignores_nulls"); } }
        _ => { if nn == 0 { assert!(matches!(out, Value::Null), "role=max_of_no_values_is_null"); } else { assert!(matches!(out, Value::Int(m) if m == mx), "role=max_ignores_nulls"); } }
    }
}

// @vt prop=C16 tier=quick bound="COUNT(*) / SUM / AVG / MIN / MAX over an integer column of 0..=3 rows, each NULL or any i64 (exact sum within i64)" outside="more than 3 rows; float and mixed columns (c16_fold_float); the grouping hash table and HAVING" timeout=1800
vt_proof! { unwind = 5; fn c16_fold_int() {
    let n: usize = kani::any(); kani::assume(n <= 3);
    if n == 0 { fold_int(0) } else if n == 1 { fold_int(1) } else if n == 2 { fold_int(2) } else { fold_int(3) }
}}

// @vt prop=C16 tier=quick bound="SUM / AVG over two arbitrary i64 values whose exact sum does not fit i64" outside="longer inputs" timeout=1800
vt_proof! { unwind = 4; fn c16_sum_overflow() {
    let a: i64 = kani::any(); let b: i64 = kani::any();
    let exact = a as i128 + b as i128;
    kani::assume(exact > i64::MAX as i128 || exact < i64::MIN as i128);
    let f = AggregateFunction::Sum { column: 0 };
    let mut st = agg_new();
    let r1 = [Value::Int(a)]; agg_update(&mut st, &f, &ExecutorRow::new(&r1));
    let r2 = [Value::Int(b)]; agg_update(&mut st, &f, &ExecutorRow::new(&r2));
    let out = agg_finalize(&st, &f);
    kani::cover!(true, "w:overflowing_pair_reached_finalize");
    // SQL: an error (or a wider exact result) — never a wrapped value presented as the sum
    assert!(!matches!(out, Value::Int(s) if s as i128 != exact), "role=sum_overflow_is_not_a_wrapped_value");
}}

// @vt prop=C16 tier=quick bound="SUM / AVG / MIN / MAX over a float column of 0..=2 rows, each NULL or a finite f64 of magnitude < 2^40 with at most 12 fractional bits (every partial sum exact)" outside="floats whose sums round; NaN/inf; more than 2 rows" timeout=1800
vt_proof! { unwind = 4; fn c16_fold_float() {
    let raw: [i64; 2] = kani::any(); let nulls: [bool; 2] = kani::any();
    kani::assume(raw[0] > -(1i64 << 52) && raw[0] < (1i64 << 52) && raw[1] > -(1i64 << 52) && raw[1] < (1i64 << 52));
    let v = [raw[0] as f64 / 4096.0, raw[1] as f64 / 4096.0];
    let which: u8 = kani::any(); kani::assume(which >= 1 && which < 5);
    let f = match which { 1 => AggregateFunction::Sum { column: 0 }, 2 => AggregateFunction::Avg { column: 0 }, 3 => AggregateFunction::Min { column: 0 }, _ => AggregateFunction::Max { column: 0 } };
    let mut st = agg_new();
    let mut nn = 0; let mut sum = 0.0f64; let mut mn = f64::INFINITY; let mut mx = f64::NEG_INFINITY;
    let mut i = 0;
    while i < 2 {
        let row = [if nulls[i] { Value::Null } else { Value::Float(v[i]) }];
        agg_update(&mut st, &f, &ExecutorRow::new(&row));
        if !nulls[i] { nn += 1; sum += v[i]; if v[i] < mn { mn = v[i]; } if v[i] > mx { mx = v[i]; } }
        i += 1;
    }
    let out = agg_finalize(&st, &f);
    kani::cover!(nn == 2 && sum == 0.0 && v[0] != 0.0, "w:values_cancel_to_zero");
    match which {
        1 => { if nn == 0 { assert!(matches!(out, Value::Null), "role=sum_of_no_values_is_null"); } else { assert!(matches!(out, Value::Float(s) if s == sum), "role=float_sum_is_a_float_with_the_exact_value"); } }
        2 => { if nn == 0 { assert!(matches!(out, Value::Null), "role=avg_of_no_values_is_null"); } else { assert!(matches!(out, Value::Float(a) if a == sum / nn as f64), "role=avg_is_sum_over_count_of_non_null"); } }
        3 => { if nn == 0 { assert!(matches!(out, Value::Null), "role=min_of_no_values_is_null"); } else { assert!(matches!(out, Value::Float(m) if m == mn), "role=min_ignores_nulls"); } }
        _ => { if nn == 0 { assert!(matches!(out, Value::Null), "role=max_of_no_values_is_null"); } else { assert!(matches!(out, Value::Float(m) if m == mx), "role=max_ignores_nulls"); } }
    }
}}

fn not_distinct(a: Cell, b: Cell) -> bool { match (a, b) { (Cell::Null, Cell::Null) => true, (Cell::Int(x), Cell::Int(y)) => x == y, _ => false } }

fn group_key_case(a: [Cell; 2], b: [Cell; 2]) {
    let ra = [val(a[0]), val(a[1])]; let rb = [val(b[0]), val(b[1])];
    let ka = core::mem::ManuallyDrop::new(compute_group_key_for_dynamic(&ExecutorRow::new(&ra), &[0, 1]));
    let kb = core::mem::ManuallyDrop::new(compute_group_key_for_dynamic(&ExecutorRow::new(&rb), &[0, 1]));
    let same_group = not_distinct(a[0], b[0]) && not_distinct(a[1], b[1]);
    let same_key = crate::common::lex_cmp(&ka, &kb) == core::cmp::Ordering::Equal;
    if same_group { assert!(same_key, "role=not_distinct_rows_share_a_group"); }
    if same_key { assert!(same_group, "role=distinct_rows_get_distinct_groups"); }
}
/// Builds the 4 grouping values with CONCRETE variants chosen by `mask` (bit i set = NULL), integer payloads arbitrary.
fn masked(mask: u8, zero_only: bool) -> ([Cell; 2], [Cell; 2]) {
    let mk = |bit: u8| -> Cell { if mask & bit != 0 { Cell::Null } else if zero_only { Cell::Int(0) } else { Cell::Int(kani::any()) } };
    ([mk(1), mk(2)], [mk(4), mk(8)])
}
macro_rules! all_masks { ($zero:expr) => {{
    let m: u8 = kani::any(); kani::assume(m < 16);
    kani::cover!(m == 0b0110, "w:nulls_in_different_positions_mask");
    // exhaustive split: inside each branch the NULL/non-NULL pattern is concrete, so the encoder's match is resolved
    if m == 0 { let (a, b) = masked(0, $zero); group_key_case(a, b) } else if m == 1 { let (a, b) = masked(1, $zero); group_key_case(a, b) }
    else if m == 2 { let (a, b) = masked(2, $zero); group_key_case(a, b) } else if m == 3 { let (a, b) = masked(3, $zero); group_key_case(a, b) }
    else if m == 4 { let (a, b) = masked(4, $zero); group_key_case(a, b) } else if m == 5 { let (a, b) = masked(5, $zero); group_key_case(a, b) }
    else if m == 6 { let (a, b) = masked(6, $zero); group_key_case(a, b) } else if m == 7 { let (a, b) = masked(7, $zero); group_key_case(a, b) }
    else if m == 8 { let (a, b) = masked(8, $zero); group_key_case(a, b) } else if m == 9 { let (a, b) = masked(9, $zero); group_key_case(a, b) }
    else if m == 10 { let (a, b) = masked(10, $zero); group_key_case(a, b) } else if m == 11 { let (a, b) = masked(11, $zero); group_key_case(a, b) }
    else if m == 12 { let (a, b) = masked(12, $zero); group_key_case(a, b) } else if m == 13 { let (a, b) = masked(13, $zero); group_key_case(a, b) }
    else if m == 14 { let (a, b) = masked(14, $zero); group_key_case(a, b) } else { let (a, b) = masked(15, $zero); group_key_case(a, b) }
}}; }

// @vt prop=C16 tier=quick bound="GROUP BY on two integer columns: all pairs of rows whose grouping values are NULL or 0 (all 16 NULL patterns)" outside="other integers in the quick tier (thorough: every i64)" timeout=1800
vt_proof! { unwind = 6; fn c16_group_key_null_positions() { all_masks!(true) }}

// @vt prop=C16 tier=thorough bound="GROUP BY on two integer columns: ALL pairs of rows (each grouping value NULL or any i64, all 16 NULL patterns)" outside="more than two grouping columns; text keys (key injectivity per type: C26)" timeout=3600 mem=24
vt_proof! { unwind = 20; fn c16_group_key_two_int_columns() { all_masks!(false) }}
