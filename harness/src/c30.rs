//! C30 — vectorised leaf search equals binary search (src/btree/simd_scan.rs), small-page build.
//!
//! Two layers:
//!  1. the prefix-search kernels (`simd_prefix_search_scalar`, `simd_prefix_search_avx2`) must return a window
//!     [left, right) such that every slot left of it has a smaller prefix, every slot right of it a greater
//!     prefix (so that every slot whose prefix ties with the probe is inside) — that is exactly what the
//!     final binary search of `find_key_simd` relies on;
//!  2. `find_key_simd` as a whole against a linear scan over the sorted keys.
use turdb::btree::{LeafNode, LeafNodeMut, SearchResult};
use turdb::btree::simd_scan::{find_key_simd, simd_prefix_search_scalar};
use turdb::storage::PAGE_SIZE;

pub const CONTENT: usize = 24; // PAGE_HEADER_SIZE + LEAF_HEADER_SIZE
pub const SLOT: usize = 8;

/// Writes n slots whose prefixes are symbolic and sorted (non-decreasing): that is all the prefix-search
/// kernels read. Offsets / key lengths are left zero.
fn page_with_sorted_prefixes<const N: usize>(page: &mut [u8; PAGE_SIZE], pref: &[u32; N], n: usize) {
    let mut i = 0;
    while i < N {
        if i < n {
            let b = pref[i].to_be_bytes();
            let o = CONTENT + i * SLOT;
            page[o] = b[0]; page[o + 1] = b[1]; page[o + 2] = b[2]; page[o + 3] = b[3];
        }
        if i + 1 < n { kani::assume(pref[i] <= pref[i + 1]); }
        i += 1;
    }
}

fn window_ok<const N: usize>(pref: &[u32; N], n: usize, target: u32, left: usize, right: usize) {
    assert!(left <= n, "role=window_left_in_range");
    let right = if right > n { n } else { right }; // find_key_simd clamps `right` itself
    let mut i = 0;
    while i < N {
        if i < n {
            if i < left { assert!(pref[i] < target, "role=window_excludes_only_smaller_on_the_left"); }
            if i >= right { assert!(pref[i] > target, "role=window_excludes_only_greater_on_the_right"); }
        }
        i += 1;
    }
}

// @vt prop=C30 tier=quick feat=sp bound="scalar prefix search: every page of 0..=12 slots with arbitrary sorted 32-bit prefixes (ties of any length), every probe prefix" outside="more than 12 slots (thorough: 20)" timeout=1800 mem=16
vt_proof! { unwind = 14; fn c30_scalar_window_12() {
    let mut page = [0u8; PAGE_SIZE];
    let pref: [u32; 12] = kani::any();
    let n: usize = kani::any(); kani::assume(n <= 12);
    page_with_sorted_prefixes(&mut page, &pref, n);
    let target: u32 = kani::any();
    let (l, r, _) = simd_prefix_search_scalar(&page, target, n);
    kani::cover!(n == 12 && pref[3] == target && pref[9] == target, "w:long_tie");
    kani::cover!(n == 5 && pref[4] < target, "w:probe_above_all");
    window_ok(&pref, n, target, l, r);
}}

// @vt prop=C30 tier=thorough feat=sp bound="AVX2 prefix search (CPU model: AVX2): every page of 0..=12 slots with arbitrary sorted 32-bit prefixes (ties of any length, incl. across the 8-lane batch edges), every probe prefix" outside="more than 12 slots (thorough: 20)" timeout=1800 mem=16
vt_proof_avx2! { unwind = 14; fn c30_avx2_window_12() {
    let mut page = [0u8; PAGE_SIZE];
    let pref: [u32; 12] = kani::any();
    let n: usize = kani::any(); kani::assume(n <= 12);
    page_with_sorted_prefixes(&mut page, &pref, n);
    let target: u32 = kani::any();
    let (l, r, _) = unsafe { turdb::btree::simd_scan::simd_prefix_search_avx2(&page, target, n) };
    kani::cover!(n == 12 && pref[3] == target && pref[9] == target, "w:long_tie");
    kani::cover!(n == 8 && pref[0] == target, "w:tie_at_lane_0");
    kani::cover!(n == 12 && pref[11] == target && pref[10] < target, "w:match_in_last_slot");
    window_ok(&pref, n, target, l, r);
}}

// @vt prop=C30 tier=quick feat=sp bound="AVX2 prefix search (CPU model: AVX2): every page of 0..=10 slots with arbitrary sorted 32-bit prefixes (ties of any length, incl. at lane 0 / lane 7 of the 8-lane batch), every probe prefix" outside="more than 10 slots in the quick tier (thorough: 12 and 20)" timeout=1800 mem=16
vt_proof_avx2! { unwind = 12; fn c30_avx2_window_10() {
    let mut page = [0u8; PAGE_SIZE];
    let pref: [u32; 10] = kani::any();
    let n: usize = kani::any(); kani::assume(n <= 10);
    page_with_sorted_prefixes(&mut page, &pref, n);
    let target: u32 = kani::any();
    let (l, r, _) = unsafe { turdb::btree::simd_scan::simd_prefix_search_avx2(&page, target, n) };
    kani::cover!(n == 10 && pref[1] == target && pref[9] == target, "w:long_tie");
    kani::cover!(n == 8 && pref[0] == target, "w:tie_at_lane_0");
    kani::cover!(n == 10 && pref[9] == target && pref[8] < target, "w:match_in_last_slot");
    window_ok(&pref, n, target, l, r);
}}

// @vt prop=C30 tier=quick feat=sp bound="find_key_simd (CPU model: AVX2) on every valid leaf of exactly 8 cells (one full batch), keys of 1..=3 arbitrary bytes, every probe of 0..=3 bytes" outside="other cell counts in the quick tier (thorough: 0..=9)" timeout=1800 mem=24
vt_proof_avx2! { unwind = 11; fn c30_find_key_avx2_8() { find_vs_linear_exact::<8>(); }}

// ---------------------------------------------------------------- whole find_key_simd vs linear scan
use crate::pg::{self, Cell};

fn linear<const N: usize>(cells: &[Cell<3, 1>; N], n: usize, probe: &[u8]) -> SearchResult {
    let mut i = 0;
    while i < N {
        if i < n {
            match crate::common::lex_cmp(cells[i].k(), probe) {
                core::cmp::Ordering::Equal => return SearchResult::Found(i),
                core::cmp::Ordering::Greater => return SearchResult::NotFound(i),
                _ => {}
            }
        }
        i += 1;
    }
    SearchResult::NotFound(n)
}

/// Valid leaf of n <= N cells with strictly increasing keys of 1..=3 arbitrary bytes (hand-built, see pg.rs),
/// arbitrary probe of 0..=3 bytes; `find_key_simd` must agree with a linear scan.
fn find_vs_linear<const N: usize>() {
    let mut page = [0u8; PAGE_SIZE];
    let cells: [Cell<3, 1>; N] = core::array::from_fn(|_| Cell::any(1));
    let n: usize = kani::any(); kani::assume(n <= N);
    let mut i = 1;
    while i < N { if i < n { kani::assume(pg::lex_lt(cells[i - 1].k(), cells[i].k())); } i += 1; }
    pg::write_leaf(&mut page, &cells, n, PAGE_SIZE, 0, 0);
    let probe: [u8; 3] = kani::any();
    let pl: usize = kani::any(); kani::assume(pl <= 3);
    let got = find_key_simd(&page, &probe[..pl], n);
    let want = linear(&cells, n, &probe[..pl]);
    kani::cover!(matches!(got, SearchResult::Found(_)), "w:found");
    kani::cover!(n >= 2 && pl == 2 && cells[0].klen == 3 && cells[0].key[2] == 0 && cells[0].key[0] == probe[0] && cells[0].key[1] == probe[1], "w:probe_differs_from_key_only_by_trailing_nul");
    kani::cover!(n == N && matches!(got, SearchResult::NotFound(x) if x == N), "w:probe_above_all");
    assert!(got == want, "role=find_key_equals_linear_scan");
}

fn find_vs_linear_exact<const N: usize>() {
    let mut page = [0u8; PAGE_SIZE];
    let cells: [Cell<3, 1>; N] = core::array::from_fn(|_| Cell::any(1));
    let mut i = 1;
    while i < N { kani::assume(pg::lex_lt(cells[i - 1].k(), cells[i].k())); i += 1; }
    pg::write_leaf(&mut page, &cells, N, PAGE_SIZE, 0, 0);
    let probe: [u8; 3] = kani::any();
    let pl: usize = kani::any(); kani::assume(pl <= 3);
    let got = find_key_simd(&page, &probe[..pl], N);
    let want = linear(&cells, N, &probe[..pl]);
    kani::cover!(matches!(got, SearchResult::Found(0)), "w:found_first_slot");
    kani::cover!(matches!(got, SearchResult::NotFound(x) if x == N), "w:probe_above_all");
    assert!(got == want, "role=find_key_equals_linear_scan");
}

// @vt prop=C30 tier=quick feat=sp bound="find_key_simd (CPU model: no AVX2) on every valid leaf of 0..=6 cells with keys of 1..=3 arbitrary bytes (shorter than the 4-byte slot prefix: zero-padding ties are inside), every probe of 0..=3 bytes" outside="more than 6 cells here (the windowing kernels are decided up to 12/20 slots separately); keys longer than 3 bytes" timeout=1800 mem=20
vt_proof! { unwind = 9; fn c30_find_key_scalar_6() { find_vs_linear::<6>(); }}

// @vt prop=C30 tier=thorough feat=sp bound="find_key_simd (CPU model: AVX2) on every valid leaf of 0..=9 cells (one full 8-lane batch plus one), keys of 1..=3 arbitrary bytes, every probe of 0..=3 bytes" outside="more than 9 cells here; keys longer than 3 bytes" timeout=1800 mem=24
vt_proof_avx2! { unwind = 12; fn c30_find_key_avx2_9() { find_vs_linear::<9>(); }}

// @vt prop=C30 tier=quick feat=sp bound="hand-built leaf of exactly 3 cells (keys 1..=3 bytes, values 0..=1 byte) read back through the real LeafNode accessors" outside="this validates the page builder used by the C28/C29/C30 harnesses, not the B-tree" timeout=1800
vt_proof! { unwind = 9; fn c30_builder_matches_real_accessors() {
    let mut page = [0u8; PAGE_SIZE];
    let cells: [Cell<3, 1>; 3] = core::array::from_fn(|_| Cell::any(1));
    kani::assume(pg::lex_lt(cells[0].k(), cells[1].k()) && pg::lex_lt(cells[1].k(), cells[2].k()));
    pg::write_leaf(&mut page, &cells, 3, PAGE_SIZE, 7, 0);
    let leaf = match LeafNode::from_page(&page) { Ok(l) => l, Err(_) => { assert!(false, "role=builder_page_is_a_leaf"); return; } };
    assert!(leaf.cell_count() == 3 && leaf.next_leaf() == 7, "role=builder_header");
    let mut i = 0;
    while i < 3 {
        let k = core::mem::ManuallyDrop::new(leaf.key_at(i)); let v = core::mem::ManuallyDrop::new(leaf.value_at(i));
        match (&*k, &*v) {
            (Ok(k), Ok(v)) => {
                assert!(crate::common::lex_cmp(k, cells[i].k()) == core::cmp::Ordering::Equal, "role=builder_key_readback");
                assert!(crate::common::lex_cmp(v, cells[i].v()) == core::cmp::Ordering::Equal, "role=builder_value_readback");
            }
            _ => assert!(false, "role=builder_cells_readable"),
        }
        i += 1;
    }
    kani::cover!(cells[1].klen == 1 && cells[2].vlen == 0, "w:short_key_empty_value");
}}

// @vt prop=C30 tier=thorough feat=sp bound="scalar prefix search: 0..=20 slots, arbitrary sorted prefixes, every probe prefix" outside="more than 20 slots (a real 16 KiB page holds ~400)" timeout=3000 mem=24
vt_proof! { unwind = 22; fn c30_scalar_window_20() {
    let mut page = [0u8; PAGE_SIZE];
    let pref: [u32; 20] = kani::any();
    let n: usize = kani::any(); kani::assume(n <= 20);
    page_with_sorted_prefixes(&mut page, &pref, n);
    let target: u32 = kani::any();
    let (l, r, _) = simd_prefix_search_scalar(&page, target, n);
    kani::cover!(n == 20 && pref[7] == target && pref[16] == target, "w:tie_across_two_batches");
    window_ok(&pref, n, target, l, r);
}}

// @vt prop=C30 tier=thorough feat=sp bound="AVX2 prefix search (CPU model: AVX2): 0..=20 slots, arbitrary sorted prefixes, every probe prefix" outside="more than 20 slots" timeout=3000 mem=24
vt_proof_avx2! { unwind = 22; fn c30_avx2_window_20() {
    let mut page = [0u8; PAGE_SIZE];
    let pref: [u32; 20] = kani::any();
    let n: usize = kani::any(); kani::assume(n <= 20);
    page_with_sorted_prefixes(&mut page, &pref, n);
    let target: u32 = kani::any();
    let (l, r, _) = unsafe { turdb::btree::simd_scan::simd_prefix_search_avx2(&page, target, n) };
    kani::cover!(n == 20 && pref[7] == target && pref[16] == target, "w:tie_across_two_batches");
    window_ok(&pref, n, target, l, r);
}}

// ---------------------------------------------------------------- long keys: ties of the full 4-byte prefix
fn linear5<const N: usize>(cells: &[Cell<5, 1>; N], n: usize, probe: &[u8]) -> SearchResult {
    let mut i = 0;
    while i < N {
        if i < n {
            match crate::common::lex_cmp(cells[i].k(), probe) {
                core::cmp::Ordering::Equal => return SearchResult::Found(i),
                core::cmp::Ordering::Greater => return SearchResult::NotFound(i),
                _ => {}
            }
        }
        i += 1;
    }
    SearchResult::NotFound(n)
}

// @vt prop=C30 tier=quick feat=sp bound="find_key_simd (CPU model: no AVX2) on every valid leaf of 0..=4 cells with keys of 4..=5 arbitrary bytes (so that full 4-byte prefixes can tie and the 5th byte decides), every probe of 3..=5 bytes" outside="more cells; longer keys" timeout=1800 mem=20
vt_proof! { unwind = 9; fn c30_find_key_scalar_long_keys() {
    let mut page = [0u8; PAGE_SIZE];
    let cells: [Cell<5, 1>; 4] = core::array::from_fn(|_| Cell::any(4));
    let n: usize = kani::any(); kani::assume(n <= 4);
    let mut i = 1;
    while i < 4 { if i < n { kani::assume(pg::lex_lt(cells[i - 1].k(), cells[i].k())); } i += 1; }
    pg::write_leaf(&mut page, &cells, n, PAGE_SIZE, 0, 0);
    let probe: [u8; 5] = kani::any();
    let pl: usize = kani::any(); kani::assume(pl >= 3 && pl <= 5);
    let got = find_key_simd(&page, &probe[..pl], n);
    let want = linear5(&cells, n, &probe[..pl]);
    kani::cover!(n == 4 && cells[1].key[0] == cells[2].key[0] && cells[1].key[1] == cells[2].key[1] && cells[1].key[2] == cells[2].key[2] && cells[1].key[3] == cells[2].key[3] && matches!(got, SearchResult::Found(2)), "w:found_behind_a_full_prefix_tie");
    assert!(got == want, "role=find_key_equals_linear_scan");
}}

// @vt prop=C30 tier=thorough feat=sp bound="find_key_simd (CPU model: AVX2) on every valid leaf of exactly 8 cells with keys of 4..=5 arbitrary bytes, every probe of 3..=5 bytes" outside="other cell counts; longer keys" timeout=5400 mem=30
vt_proof_avx2! { unwind = 11; fn c30_find_key_avx2_long_keys_8() {
    let mut page = [0u8; PAGE_SIZE];
    let cells: [Cell<5, 1>; 8] = core::array::from_fn(|_| Cell::any(4));
    let mut i = 1;
    while i < 8 { kani::assume(pg::lex_lt(cells[i - 1].k(), cells[i].k())); i += 1; }
    pg::write_leaf(&mut page, &cells, 8, PAGE_SIZE, 0, 0);
    let probe: [u8; 5] = kani::any();
    let pl: usize = kani::any(); kani::assume(pl >= 3 && pl <= 5);
    let got = find_key_simd(&page, &probe[..pl], 8);
    let want = linear5(&cells, 8, &probe[..pl]);
    kani::cover!(matches!(got, SearchResult::Found(7)), "w:found_last_slot");
    assert!(got == want, "role=find_key_equals_linear_scan");
}}
