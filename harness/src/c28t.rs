//! C28 (tree level) — cursors enumerate exactly the stored entries, in order, also across EMPTY leaves (a leaf whose
//! entries were all deleted stays in the chain: delete_cell never merges pages); interior routing (`find_child`).
use crate::c34::MemStore;
use crate::pg::{self, Ent};
use turdb::btree::{BTree, InteriorNode};
use turdb::storage::PAGE_SIZE;

fn tagged(tag: u8, v: u8) -> Ent { let mut e = Ent::ZERO; e.kl = 2; e.k[0] = tag; e.k[1] = 1; e.vl = 1; e.v[0] = v; e }

/// Tree: interior root (page 1) with separators [0x20,0], [0x30,0] -> leaves 2, 3 and right child 4; the leaves are
/// chained 2 -> 3 -> 4 and hold na / nb / nc entries with keys [0x1i,1] / [0x2i,1] / [0x3i,1] and symbolic values.
fn build(st: &mut MemStore<5>, na: usize, nb: usize, nc: usize, vals: &[u8; 6]) -> [Ent; 6] {
    let mut seps = [Ent::ZERO; 2];
    seps[0].kl = 2; seps[0].k[0] = 0x20; seps[1].kl = 2; seps[1].k[0] = 0x30;
    pg::put_interior(&mut st.pages[1], &seps, &[2, 3], 2, 4);
    let a = [tagged(0x10, vals[0]), tagged(0x11, vals[1])];
    let b = [tagged(0x20, vals[2]), tagged(0x21, vals[3])];
    let c = [tagged(0x30, vals[4]), tagged(0x31, vals[5])];
    pg::put_leaf(&mut st.pages[2], &a, na, PAGE_SIZE, 0, 3, 0);
    pg::put_leaf(&mut st.pages[3], &b, nb, PAGE_SIZE, 0, 4, 0);
    pg::put_leaf(&mut st.pages[4], &c, nc, PAGE_SIZE, 0, 0, 0);
    let mut all = [Ent::ZERO; 6];
    let mut n = 0;
    if na > 0 { all[n] = a[0]; n += 1; } if na > 1 { all[n] = a[1]; n += 1; }
    if nb > 0 { all[n] = b[0]; n += 1; } if nb > 1 { all[n] = b[1]; n += 1; }
    if nc > 0 { all[n] = c[0]; n += 1; } if nc > 1 { all[n] = c[1]; }
    all
}

fn forward_scan(na: usize, nb: usize, nc: usize) {
    let mut st = MemStore::<5> { pages: [[0u8; PAGE_SIZE]; 5] };
    let vals: [u8; 6] = kani::any();
    let want = build(&mut st, na, nb, nc, &vals);
    let total = na + nb + nc;
    let tree = match BTree::new(&mut st, 1) { Ok(t) => t, Err(_) => { assert!(false, "role=tree_opens"); return; } };
    let cur = core::mem::ManuallyDrop::new(tree.cursor_first());
    let mut cur = match &*cur { Ok(_) => core::mem::ManuallyDrop::into_inner(cur).unwrap(), Err(_) => { assert!(false, "role=cursor_first_ok"); return; } };
    let mut seen = 0usize;
    macro_rules! step { () => { if cur.valid() {
        let k = core::mem::ManuallyDrop::new(cur.key()); let v = core::mem::ManuallyDrop::new(cur.value());
        match (&*k, &*v) {
            (Ok(k), Ok(v)) => { if seen < 6 { assert!(k.len() == 2 && k[0] == want[seen].k[0] && v.len() == 1 && v[0] == want[seen].v[0], "role=c28_cursor_yields_entries_in_key_order"); } seen += 1; }
            _ => assert!(false, "role=cursor_key_value_ok"),
        }
        let adv = core::mem::ManuallyDrop::new(cur.advance()); assert!(adv.is_ok(), "role=cursor_advance_ok");
    } }; }
    step!(); step!(); step!(); step!(); step!(); step!(); step!();
    assert!(seen == total, "role=c28_cursor_enumerates_every_entry_across_leaves");
    assert!(!cur.valid(), "role=cursor_exhausted_after_last_entry");
}

// @vt prop=C28 tier=quick feat=sp fs=600 bound="forward scan (cursor_first + advance) over a 3-leaf chain under an interior root with an EMPTY middle leaf: cell counts (2,0,1) and (0,0,2), arbitrary value bytes" outside="deeper trees; more than 2 cells per leaf; symbolic keys (cursors do not compare keys)" timeout=1800 mem=16 manual=known_replays/manual_cursor_empty_middle_leaf.rs
vt_proof_pg! { unwind = 5; fn c28_cursor_scan_empty_middle_leaf() {
    if kani::any() { forward_scan(2, 0, 1) } else { forward_scan(0, 0, 2) }
    kani::cover!(true, "w:reached_end");
}}
// @vt prop=C28 tier=quick feat=sp fs=600 bound="forward scan over a 3-leaf chain with an EMPTY first leaf / no empty leaf: cell counts (0,1,1) and (1,1,2), arbitrary value bytes" outside="deeper trees; more than 2 cells per leaf" timeout=1800 mem=16
vt_proof_pg! { unwind = 5; fn c28_cursor_scan_empty_first_leaf() {
    if kani::any() { forward_scan(0, 1, 1) } else { forward_scan(1, 1, 2) }
    kani::cover!(true, "w:reached_end");
}}
// @vt prop=C28 tier=thorough feat=sp fs=600 bound="forward scan over a 3-leaf chain, all cell counts (na, nb, nc) in {0,1,2}x{0,1}x{1,2}" outside="deeper trees; more than 2 cells per leaf" timeout=3600 mem=24
vt_proof_pg! { unwind = 5; fn c28_cursor_forward_scan_all_shapes() {
    let na: usize = kani::any(); let nb: usize = kani::any(); let nc: usize = kani::any();
    kani::assume(na <= 2 && nb <= 1 && nc >= 1 && nc <= 2);
    kani::cover!(nb == 0 && na == 2, "w:empty_middle_leaf");
    kani::cover!(na == 0 && nb == 1, "w:empty_first_leaf");
    if na == 0 { if nb == 0 { if nc == 1 { forward_scan(0, 0, 1) } else { forward_scan(0, 0, 2) } } else { if nc == 1 { forward_scan(0, 1, 1) } else { forward_scan(0, 1, 2) } } }
    else if na == 1 { if nb == 0 { if nc == 1 { forward_scan(1, 0, 1) } else { forward_scan(1, 0, 2) } } else { if nc == 1 { forward_scan(1, 1, 1) } else { forward_scan(1, 1, 2) } } }
    else { if nb == 0 { if nc == 1 { forward_scan(2, 0, 1) } else { forward_scan(2, 0, 2) } } else { if nc == 1 { forward_scan(2, 1, 1) } else { forward_scan(2, 1, 2) } } }
}}

// @vt prop=C29 tier=quick feat=sp bound="InteriorNode::find_child on ANY valid interior page with 3 separators of lengths (2, 5, 3) and arbitrary bytes (strictly increasing), every probe key of 0..=5 bytes: the child is the one of the first separator greater than the key, else the right child" outside="other separator shapes; more separators" timeout=1800 mem=16
vt_proof_pg! { unwind = 8; fn c29_interior_find_child() {
    let mut page = [0u8; PAGE_SIZE];
    let seps = [Ent::any(2, 0), Ent::any(5, 0), Ent::any(3, 0)];
    kani::assume(pg::lex_lt(seps[0].key(), seps[1].key()) && pg::lex_lt(seps[1].key(), seps[2].key()));
    pg::put_interior(&mut page, &seps, &[11, 12, 13], 3, 14);
    let probe: [u8; 5] = kani::any(); let pl: usize = kani::any(); kani::assume(pl <= 5);
    let key = &probe[..pl];
    let node = match InteriorNode::from_page(&page) { Ok(n) => n, Err(_) => { assert!(false, "role=interior_opens"); return; } };
    let r = core::mem::ManuallyDrop::new(node.find_child(key));
    let want: u32 = if pg::lex_lt(key, seps[0].key()) { 11 } else if pg::lex_lt(key, seps[1].key()) { 12 } else if pg::lex_lt(key, seps[2].key()) { 13 } else { 14 };
    match &*r { Ok((child, _)) => assert!(*child == want, "role=c29_find_child_routes_by_separator_bounds"), Err(_) => assert!(false, "role=find_child_ok") }
    kani::cover!(want == 12 && pl == 2 && seps[1].k[2] == 0 && seps[1].k[3] == 0, "w:probe_shorter_than_separator_with_nul_tail");
    kani::cover!(want == 14, "w:right_child");
}}

/// Entry points for hand-written native replays (Kani's trace generation runs out of memory on the scan harness).
#[cfg(kani)]
pub fn replay_forward_scan_2_0_1() { forward_scan(2, 0, 1) }
#[cfg(kani)]
pub fn replay_forward_scan_0_1_1() { forward_scan(0, 1, 1) }

/// BTree::insert through a (possibly stale or bogus) right-most-leaf hint must behave like an insert without hint:
/// afterwards `get` finds the key and a forward scan yields all entries in key order.
fn insert_with_hint(hint: Option<u32>, kb: u8) {
    let mut st = MemStore::<6> { pages: [[0u8; PAGE_SIZE]; 6] };
    let vals: [u8; 6] = kani::any();
    {
        let mut seps = [Ent::ZERO; 2];
        seps[0].kl = 2; seps[0].k[0] = 0x20; seps[1].kl = 2; seps[1].k[0] = 0x30;
        pg::put_interior(&mut st.pages[1], &seps, &[2, 3], 2, 4);
        pg::put_leaf(&mut st.pages[2], &[tagged(0x10, vals[0]), tagged(0x11, vals[1])], 2, PAGE_SIZE, 0, 3, 0);
        pg::put_leaf(&mut st.pages[3], &[tagged(0x20, vals[2]), tagged(0x21, vals[3])], 2, PAGE_SIZE, 0, 4, 0);
        pg::put_leaf(&mut st.pages[4], &[tagged(0x30, vals[4]), tagged(0x31, vals[5])], 2, PAGE_SIZE, 0, 0, 0);
    }
    let key = [kb, 1u8];
    let v: [u8; 1] = kani::any();
    let mut tree = match BTree::with_rightmost_hint(&mut st, 1, hint) { Ok(t) => t, Err(_) => { assert!(false, "role=tree_opens"); return; } };
    let r = core::mem::ManuallyDrop::new(tree.insert(&key, &v));
    assert!(r.is_ok(), "role=insert_ok");
    let g = core::mem::ManuallyDrop::new(tree.get(&key));
    match &*g { Ok(Some(x)) => assert!(x.len() == 1 && x[0] == v[0], "role=c28_inserted_key_is_found_by_get"), _ => assert!(false, "role=c28_inserted_key_is_found_by_get") }
    // forward scan: 7 entries, strictly increasing first key bytes
    let cur = core::mem::ManuallyDrop::new(tree.cursor_first());
    let mut cur = match &*cur { Ok(_) => core::mem::ManuallyDrop::into_inner(cur).unwrap(), Err(_) => { assert!(false, "role=cursor_first_ok"); return; } };
    let mut seen = 0usize; let mut last: i32 = -1; let mut sorted = true;
    macro_rules! step { () => { if cur.valid() {
        let k = core::mem::ManuallyDrop::new(cur.key());
        if let Ok(k) = &*k { if (k[0] as i32) <= last { sorted = false; } last = k[0] as i32; seen += 1; }
        let adv = core::mem::ManuallyDrop::new(cur.advance()); assert!(adv.is_ok(), "role=cursor_advance_ok");
    } }; }
    step!(); step!(); step!(); step!(); step!(); step!(); step!(); step!();
    assert!(seen == 7, "role=c28_scan_sees_every_entry_after_hinted_insert");
    assert!(sorted, "role=c28_scan_is_in_key_order_after_hinted_insert");
}

// @vt prop=C28,C29 tier=quick feat=sp fs=600 bound="BTree::insert with a STALE right-most-leaf hint (page 2, a leaf with right siblings) into a 3-leaf tree under an interior root; new key [0x25,1] or [0x35,1] (concrete; they belong to the 2nd / 3rd leaf), value byte and existing values arbitrary" outside="symbolic keys on this path (routing through the interior page would make the page number symbolic); splits" timeout=1800 mem=16 manual=known_replays/manual_insert_with_stale_hint.rs
vt_proof_pg! { unwind = 6; fn c28_insert_with_stale_hint() {
    if kani::any() { insert_with_hint(Some(2), 0x25) } else { insert_with_hint(Some(2), 0x35) }
    kani::cover!(true, "w:reached_end");
}}
// @vt prop=C28,C29 tier=thorough feat=sp fs=600 bound="BTree::insert with the correct hint (page 4), a stale hint to the middle leaf (page 3), and no hint; new key [0x35,1] / [0x25,1]" outside="symbolic keys; splits" timeout=1800 mem=16
vt_proof_pg! { unwind = 6; fn c28_insert_with_other_hints() {
    let h: u8 = kani::any(); kani::assume(h < 3);
    if h == 0 { insert_with_hint(Some(4), 0x35) } else if h == 1 { insert_with_hint(Some(3), 0x35) } else { insert_with_hint(None, 0x25) }
    kani::cover!(true, "w:reached_end");
}}
// @vt prop=C28,C29 tier=thorough feat=sp fs=600 bound="BTree::insert with a hint that is not a leaf (page 1) or out of range (page 9); new key [0x15,1]" outside="symbolic keys; splits" timeout=1800 mem=16
vt_proof_pg! { unwind = 6; fn c28_insert_with_bogus_hints() {
    if kani::any() { insert_with_hint(Some(1), 0x15) } else { insert_with_hint(Some(9), 0x15) }
    kani::cover!(true, "w:reached_end");
}}
#[cfg(kani)]
pub fn replay_insert_with_stale_hint() { insert_with_hint(Some(2), 0x25) }
