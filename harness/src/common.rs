//! Environment stubs shared by every harness (DESIGN.md section 2.1). Every stub is part of
//! the claim and is echoed into the evidence files by the runner.
#![allow(dead_code)]

pub struct NoHandler;
impl eyre::EyreHandler for NoHandler {
    fn debug(
        &self,
        _e: &(dyn std::error::Error + 'static),
        _f: &mut core::fmt::Formatter<'_>,
    ) -> core::fmt::Result {
        Ok(())
    }
}
pub fn stub_capture_handler(
    _error: &(dyn std::error::Error + 'static),
) -> Box<dyn eyre::EyreHandler> {
    Box::new(NoHandler)
}
pub fn stub_format(_a: core::fmt::Arguments<'_>) -> String {
    String::new()
}
pub fn stub_report_drop(_r: &mut eyre::Report) {}

/// CPU model "no AVX2": every cpuid leaf is zero.
pub fn stub_cpuid_noavx(_leaf: u32, _sub: u32) -> core::arch::x86_64::CpuidResult {
    core::arch::x86_64::CpuidResult { eax: 0, ebx: 0, ecx: 0, edx: 0 }
}
/// CPU model "AVX2 + OSXSAVE, XCR0 = 7".
pub fn stub_cpuid_avx2(leaf: u32, _sub: u32) -> core::arch::x86_64::CpuidResult {
    let (mut eax, mut ebx, mut ecx, edx) = (0u32, 0u32, 0u32, 0u32);
    match leaf {
        0 => eax = 7,
        1 => ecx = (1 << 26) | (1 << 27) | (1 << 28) | (1 << 12),
        7 => ebx = 1 << 5,
        _ => {}
    }
    core::arch::x86_64::CpuidResult { eax, ebx, ecx, edx }
}
pub unsafe fn stub_xgetbv(_x: u32) -> u64 {
    7
}

/// Symbolic length in 0..=max.
#[cfg(kani)]
pub fn any_len(max: usize) -> usize {
    let n: usize = kani::any();
    kani::assume(n <= max);
    n
}

/// Fixed-capacity key buffer implementing the crate's public `KeyBuffer` trait, so that the
/// generic encoders are instantiated without heap allocation (instantiation stated in evidence;
/// selected harnesses also run the `Vec<u8>` instantiation the database itself uses).
pub struct FixBuf<const N: usize> {
    pub b: [u8; N],
    pub n: usize,
}
impl<const N: usize> FixBuf<N> {
    pub fn new() -> Self {
        FixBuf { b: [0u8; N], n: 0 }
    }
    pub fn as_slice(&self) -> &[u8] {
        &self.b[..self.n]
    }
}
impl<const N: usize> turdb::encoding::key::KeyBuffer for FixBuf<N> {
    fn push(&mut self, byte: u8) {
        self.b[self.n] = byte;
        self.n += 1;
    }
    fn extend_from_slice(&mut self, bytes: &[u8]) {
        let mut i = 0;
        while i < bytes.len() {
            self.b[self.n] = bytes[i];
            self.n += 1;
            i += 1;
        }
    }
}

/// Lexicographic byte comparison (memcmp semantics), written as an explicit loop so that the
/// unwinding bound is visible: needs unwind >= min(len)+2.
pub fn lex_cmp(a: &[u8], b: &[u8]) -> core::cmp::Ordering {
    use core::cmp::Ordering::*;
    let mut i = 0;
    while i < a.len() && i < b.len() {
        if a[i] < b[i] {
            return Less;
        }
        if a[i] > b[i] {
            return Greater;
        }
        i += 1;
    }
    if a.len() < b.len() {
        Less
    } else if a.len() > b.len() {
        Greater
    } else {
        Equal
    }
}

/// `core::ptr::copy` (memmove) as an explicit byte loop with the right direction. CBMC's built-in memmove model on a
/// field-sensitive page array is what made single leaf operations cost minutes; with this stub they cost seconds.
/// Used by the page-level harnesses only (listed in their evidence); the loop is covered by the unwinding assertion.
pub unsafe fn stub_ptr_copy<T>(src: *const T, dst: *mut T, count: usize) {
    let n = count * core::mem::size_of::<T>();
    let s = src as *const u8;
    let d = dst as *mut u8;
    if (d as usize) <= (s as usize) {
        let mut i = 0;
        while i < n { *d.add(i) = *s.add(i); i += 1; }
    } else {
        let mut i = n;
        while i > 0 { i -= 1; *d.add(i) = *s.add(i); }
    }
}

/// Specification stub for `find_key_simd`, used by page-operation harnesses whose subject is the *write* side
/// (insert_cell, BTree::insert/delete/update): it answers with a position fixed by the harness, which the harness
/// constrains (kani::assume) to be exactly the linear-scan position of the key. The real `find_key_simd` is decided
/// against that same linear scan in the C30 harnesses (assume-guarantee split); without the split the search result is a
/// symbolic slot index and one page write costs > 20 GB in CBMC.
pub static mut FIND_FOUND: bool = false;
pub static mut FIND_POS: usize = 0;
/// Optional queue of answers for operations that search more than once (e.g. BTree::update's grow path: search,
/// then insert_cell's own search after the delete). Entry i is used by the i-th call; when the queue is exhausted
/// (FIND_QN calls made) the single FIND_FOUND / FIND_POS answer is used.
pub static mut FIND_Q: [(bool, usize); 4] = [(false, 0); 4];
pub static mut FIND_QN: usize = 0;
pub static mut FIND_CALLS: usize = 0;
pub fn stub_find_key_simd(_page: &[u8], _key: &[u8], _n: usize) -> turdb::btree::SearchResult {
    unsafe {
        let c = FIND_CALLS;
        FIND_CALLS += 1;
        let (f, p) = if c < FIND_QN && c < 4 { FIND_Q[c] } else { (FIND_FOUND, FIND_POS) };
        if f { turdb::btree::SearchResult::Found(p) } else { turdb::btree::SearchResult::NotFound(p) }
    }
}
pub fn find_script(q: &[(bool, usize)]) {
    unsafe { FIND_CALLS = 0; FIND_QN = q.len(); let mut i = 0; while i < q.len() && i < 4 { FIND_Q[i] = q[i]; i += 1; } }
}

/// `core::str::from_utf8` for documents whose strings are all ASCII (C32): std's validator (nested word-at-a-time
/// loops over a slice whose length the symbolic executor cannot see as a constant) cost 98 s for one 2-byte string.
/// ASCII bytes are accepted; a non-ASCII byte reaching validation means the code under test handed the wrong bytes to
/// the validator (no string in these harnesses contains one) and is reported as a failure, not assumed away.
pub fn stub_from_utf8_ascii(v: &[u8]) -> Result<(), core::str::Utf8Error> {
    let mut i = 0;
    while i < v.len() {
        assert!(v[i] < 0x80, "role=only_the_ascii_bytes_of_strings_reach_utf8_validation");
        i += 1;
    }
    Ok(())
}
