//! C28 (tree level, root-leaf trees) — BTree::{get, insert, insert_if_not_exists, delete, update} on a one-leaf tree over
//! an array-backed Storage, from ANY valid root leaf of a stated shape with arbitrary bytes. `find_key_simd` is replaced
//! by its specification (assume-guarantee, see common::stub_find_key_simd and the C30 harnesses); the key's position
//! is forced by kani::assume, so every page index is concrete. Oracle: c28::decode_leaf against the known cells.
use crate::c28::{any_leaf, cells_intact, decode_leaf, Known, NMAX};
use crate::c34::MemStore;
use crate::common::find_script;
use crate::pg::{self, Ent, CONTENT, SLOT};
use core::cmp::Ordering;
use turdb::btree::BTree;
use turdb::storage::PAGE_SIZE;

fn contains(which: &[usize; NMAX], n: usize, c: usize) -> bool { let mut f = false; let mut i = 0; while i < NMAX { if i < n && which[i] == c { f = true; } i += 1; } f }

/// BTree::update(key of entry `i`, new value of `nv` bytes) on a root leaf of shape (kl, vl) whose cells end at `top`.
fn tree_update<const N: usize>(kl: [usize; N], vl: [usize; N], i: usize, nv: usize, top: usize) {
    let mut st = MemStore::<2> { pages: [[0u8; PAGE_SIZE]; 2] };
    let (mut k, fe) = any_leaf::<N>(&mut st.pages[1], kl, vl, top, 0, 0, 0);
    let free = fe - (CONTENT + N * SLOT);
    let newv: [u8; 4] = kani::any();
    let key = k.e[i];
    // search finds entry i; if the grow path deletes and re-inserts, insert_cell's search finds the gap at i
    find_script(&[(true, i), (false, i)]);
    let r = {
        let mut tree = match BTree::new(&mut st, 1) { Ok(t) => t, Err(_) => { assert!(false, "role=tree_opens"); return; } };
        core::mem::ManuallyDrop::new(tree.update(key.key(), &newv[..nv]))
    };
    let old = k.e[i];
    let grows = nv > old.vl;
    let new_cell = old.kl + 1 + nv;
    kani::cover!(matches!(&*r, Ok(true)), "w:update_applied");
    match &*r {
        Ok(true) => {
            let mut e = old; e.v = newv; e.vl = nv;
            if grows {
                // the old cell is abandoned (fragmentation), the new cell is written below the others
                k.e[i] = e; k.off[i] = fe - new_cell;
            } else { k.e[i] = e; }
            let (code, which) = decode_leaf(&st.pages[1], &k, N);
            assert!(code == 0, "role=c29_leaf_valid_after_update");
            assert!(cells_intact(&st.pages[1], &k), "role=c28_update_changes_exactly_that_value");
            let mut c = 0; while c < N { assert!(contains(&which, N, c), "role=c28_update_keeps_every_entry"); c += 1; }
        }
        Ok(false) => {
            // "no room": the caller is expected to delete + insert through the splitting path; nothing may have changed
            assert!(grows, "role=update_refused_only_when_growing");
            let (code, which) = decode_leaf(&st.pages[1], &k, N);
            assert!(code == 0 && cells_intact(&st.pages[1], &k), "role=c28_refused_update_leaves_tree_unchanged");
            let mut c = 0; while c < N { assert!(contains(&which, N, c), "role=c28_refused_update_leaves_tree_unchanged"); c += 1; }
        }
        Err(_) => {
            // an operation that fails must not lose the entry
            let (code, which) = decode_leaf(&st.pages[1], &k, N);
            assert!(code == 0 && cells_intact(&st.pages[1], &k), "role=c28_failed_update_leaves_tree_unchanged");
            let mut c = 0; while c < N { assert!(contains(&which, N, c), "role=c28_failed_update_does_not_lose_the_entry"); c += 1; }
        }
    }
    let _ = free;
}

// @vt prop=C28,C29 tier=quick feat=sp fs=600 bound="BTree::update on a root leaf of shape keys(2,3,5)/values(3,1,2): same size, shrink, and grow with ample room (entry 1: 1 -> 3 bytes)" outside="other shapes; trees with interior pages" timeout=1800 mem=16
vt_proof_pg_findspec! { unwind = 10; fn c28_tree_update_roomy() {
    tree_update::<3>([2, 3, 5], [3, 1, 2], 0, 3, PAGE_SIZE); tree_update::<3>([2, 3, 5], [3, 1, 2], 2, 0, PAGE_SIZE);
    tree_update::<3>([2, 3, 5], [3, 1, 2], 1, 3, PAGE_SIZE);
}}

// @vt prop=C28,C29 tier=quick feat=sp fs=600 bound="BTree::update growing a value (1 -> 3 bytes) on a NEARLY FULL root leaf of shape keys(3,3)/values(1,1): free space 2..=16 bytes in steps that straddle 'increase fits' / 'new cell fits'" outside="other shapes" timeout=1800 mem=16 manual=known_replays/manual_tree_update_grow_loses_entry.rs
vt_proof_pg_findspec! { unwind = 10; fn c28_tree_update_grow_nearly_full() {
    // cells: 2 * (3+1+1) = 10 bytes below top; header+slots = 24 + 16 = 40; free = top - 10 - 40
    let which: u8 = kani::any(); kani::assume(which < 4);
    kani::cover!(which == 1, "w:increase_fits_but_new_cell_does_not");
    if which == 0 { tree_update::<2>([3, 3], [1, 1], 0, 3, 40 + 10 + 1) }        // free 1  < increase 2: refused
    else if which == 1 { tree_update::<2>([3, 3], [1, 1], 0, 3, 40 + 10 + 5) }   // free 5 >= increase 2, but new cell (7) + slot (8) > 5 + 8
    else if which == 2 { tree_update::<2>([3, 3], [1, 1], 1, 3, 40 + 10 + 7) }   // free 7: new cell fits exactly after the slot is released
    else { tree_update::<2>([3, 3], [1, 1], 1, 3, 40 + 10 + 16) }
}}

/// BTree::delete / get on a root leaf.
fn tree_delete_get<const N: usize>(kl: [usize; N], vl: [usize; N], i: usize, present: bool) {
    let mut st = MemStore::<2> { pages: [[0u8; PAGE_SIZE]; 2] };
    let (k, _fe) = any_leaf::<N>(&mut st.pages[1], kl, vl, PAGE_SIZE, 0, 0, 0);
    let probe = if present { k.e[i] } else { let e = Ent::any(3, 0); if i > 0 { kani::assume(pg::lex_lt(k.e[i - 1].key(), e.key())); } if i < N { kani::assume(pg::lex_lt(e.key(), k.e[i].key())); } e };
    // get
    find_script(&[(present, i)]);
    {
        let tree = match BTree::new(&mut st, 1) { Ok(t) => t, Err(_) => { assert!(false, "role=tree_opens"); return; } };
        let g = core::mem::ManuallyDrop::new(tree.get(probe.key()));
        match &*g {
            Ok(Some(v)) => { assert!(present, "role=c28_get_absent_key_is_none"); assert!(crate::common::lex_cmp(v, k.e[i].val()) == Ordering::Equal, "role=c28_get_returns_stored_value"); }
            Ok(None) => assert!(!present, "role=c28_get_finds_present_key"),
            Err(_) => assert!(false, "role=get_ok"),
        }
    }
    // delete
    find_script(&[(present, i)]);
    let r = { let mut tree = match BTree::new(&mut st, 1) { Ok(t) => t, Err(_) => { assert!(false, "role=tree_opens"); return; } }; core::mem::ManuallyDrop::new(tree.delete(probe.key())) };
    match &*r {
        Ok(true) => {
            assert!(present, "role=c28_delete_reports_absent_key");
            let (code, which) = decode_leaf(&st.pages[1], &k, N - 1);
            assert!(code == 0, "role=c29_leaf_valid_after_delete");
            let mut c = 0; while c < N { if c == i { assert!(!contains(&which, N - 1, c), "role=c28_deleted_entry_is_gone"); } else { assert!(contains(&which, N - 1, c), "role=c28_delete_keeps_every_other_entry"); } c += 1; }
        }
        Ok(false) => { assert!(!present, "role=c28_delete_finds_present_key"); let (code, _) = decode_leaf(&st.pages[1], &k, N); assert!(code == 0 && cells_intact(&st.pages[1], &k), "role=c28_delete_of_absent_key_changes_nothing"); }
        Err(_) => assert!(false, "role=delete_ok"),
    }
}

// @vt prop=C28,C29 tier=quick feat=sp fs=600 bound="BTree::get + BTree::delete on a root leaf of shape keys(2,3,5)/values(3,1,2): each present key, and an absent 3-byte key at each gap" outside="other shapes; trees with interior pages" timeout=1800 mem=16
vt_proof_pg_findspec! { unwind = 10; fn c28_tree_get_delete() {
    tree_delete_get::<3>([2, 3, 5], [3, 1, 2], 0, true); tree_delete_get::<3>([2, 3, 5], [3, 1, 2], 2, true);
    tree_delete_get::<3>([2, 3, 5], [3, 1, 2], 1, false); tree_delete_get::<3>([2, 3, 5], [3, 1, 2], 3, false);
    kani::cover!(true, "w:reached_end");
}}

/// BTree::insert / insert_if_not_exists without split on a root leaf.
fn tree_insert<const N: usize>(kl: [usize; N], vl: [usize; N], c: usize, unique_api: bool, dup: bool) {
    let mut st = MemStore::<2> { pages: [[0u8; PAGE_SIZE]; 2] };
    let (mut k, fe) = any_leaf::<N>(&mut st.pages[1], kl, vl, PAGE_SIZE, 0, 0, 0);
    let e = if dup { let mut e = Ent::any(kl[c], 2); e.k = k.e[c].k; e } else { let e = Ent::any(4, 2); if c > 0 { kani::assume(pg::lex_lt(k.e[c - 1].key(), e.key())); } if c < N { kani::assume(pg::lex_lt(e.key(), k.e[c].key())); } e };
    find_script(&[(dup, c)]);
    let ok: Option<bool> = {
        let mut tree = match BTree::new(&mut st, 1) { Ok(t) => t, Err(_) => { assert!(false, "role=tree_opens"); return; } };
        if unique_api {
            let r = core::mem::ManuallyDrop::new(tree.insert_if_not_exists(e.key(), e.val()));
            match &*r { Ok(turdb::btree::InsertUniqueResult::Inserted) => Some(true), Ok(turdb::btree::InsertUniqueResult::Duplicate(_)) => Some(false), Err(_) => None }
        } else {
            let r = core::mem::ManuallyDrop::new(tree.insert(e.key(), e.val()));
            match &*r { Ok(()) => Some(true), Err(_) => Some(false) }
        }
    };
    match ok {
        Some(true) => {
            assert!(!dup, "role=duplicate_key_rejected");
            k.push(e, fe - e.cell_size());
            let (code, which) = decode_leaf(&st.pages[1], &k, N + 1);
            assert!(code == 0, "role=c29_leaf_valid_after_insert");
            assert!(cells_intact(&st.pages[1], &k), "role=c28_cell_bytes_intact_after_insert");
            let mut x = 0; while x <= N { assert!(contains(&which, N + 1, x), "role=c28_insert_keeps_every_entry_and_adds_the_new_one"); x += 1; }
        }
        Some(false) => { assert!(dup, "role=insert_with_room_succeeds"); let (code, _) = decode_leaf(&st.pages[1], &k, N); assert!(code == 0 && cells_intact(&st.pages[1], &k), "role=c28_rejected_insert_changes_nothing"); }
        None => assert!(false, "role=insert_if_not_exists_ok"),
    }
}

// @vt prop=C28,C29 tier=quick feat=sp fs=600 bound="BTree::insert and insert_if_not_exists (no split) on a root leaf of shape keys(2,3,5)/values(3,1,2): new 4-byte key at positions 0 and 2, and a duplicate of entry 1" outside="other shapes; splits" timeout=1800 mem=16
vt_proof_pg_findspec! { unwind = 10; fn c28_tree_insert_no_split() {
    tree_insert::<3>([2, 3, 5], [3, 1, 2], 0, false, false); tree_insert::<3>([2, 3, 5], [3, 1, 2], 2, true, false);
    tree_insert::<3>([2, 3, 5], [3, 1, 2], 1, true, true); tree_insert::<3>([2, 3, 5], [3, 1, 2], 1, false, true);
    kani::cover!(true, "w:reached_end");
}}

/// Entry point for a hand-written native replay (in case Kani's trace generation runs out of memory).
#[cfg(kani)]
pub fn replay_tree_update_grow_free5() { tree_update::<2>([3, 3], [1, 1], 0, 3, 40 + 10 + 5) }
