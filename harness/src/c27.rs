//! C27 — varints round-trip with canonical length (src/encoding/varint.rs).
use turdb::encoding::varint::{decode_varint, encode_varint, varint_len};

/// Reference decoder written from the module documentation table (trusted base).
fn ref_decode(b: &[u8]) -> Option<(u64, usize)> {
    if b.is_empty() {
        return None;
    }
    let m = b[0];
    let need = match m {
        0..=240 => 1,
        241..=248 => 2,
        249 => 3,
        250 => 4,
        251 => 5,
        255 => 9,
        _ => return None,
    };
    if b.len() < need {
        return None;
    }
    let mut tail: u64 = 0;
    let mut i = 1;
    while i < need {
        tail = (tail << 8) | b[i] as u64;
        i += 1;
    }
    let v = match m {
        0..=240 => m as u64,
        241..=248 => 240 + 256 * (m as u64 - 241) + tail,
        249 => 2288 + tail,
        _ => tail,
    };
    Some((v, need))
}

// @vt prop=C27 tier=quick bound="all 2^64 values; 10-byte buffer with symbolic prior contents" outside="none for the value domain (loop-free code: no unwinding bound needed)"
vt_proof! { unwind = 11; fn c27_encode_decode_all_u64() {
    let v: u64 = kani::any();
    let before: [u8; 10] = kani::any();
    let mut buf = before;
    let n = encode_varint(v, &mut buf);
    assert!(n == varint_len(v), "role=encode_returns_varint_len");
    assert!(n >= 1 && n <= 9, "role=len_range");
    let mut i = 0;
    while i < 10 {
        if i >= n { assert!(buf[i] == before[i], "role=encode_writes_only_prefix"); }
        i += 1;
    }
    kani::cover!(n == 1, "w:len1"); kani::cover!(n == 2, "w:len2"); kani::cover!(n == 3, "w:len3");
    kani::cover!(n == 4, "w:len4"); kani::cover!(n == 5, "w:len5"); kani::cover!(n == 9, "w:len9");
    // decoding exactly the written bytes, and decoding with trailing garbage
    match decode_varint(&buf[..n]) {
        Ok((dv, dn)) => { assert!(dv == v, "role=roundtrip_value"); assert!(dn == n, "role=roundtrip_consumed"); }
        Err(_) => assert!(false, "role=roundtrip_is_ok"),
    }
    match decode_varint(&buf) {
        Ok((dv, dn)) => { assert!(dv == v && dn == n, "role=roundtrip_with_trailing_bytes"); }
        Err(_) => assert!(false, "role=roundtrip_is_ok"),
    }
    // the decoder needs every byte: a one-byte-shorter input must not produce the value
    if n > 1 {
        assert!(decode_varint(&buf[..n - 1]).is_err(), "role=truncated_encoding_rejected");
    }
}}

// @vt prop=C27 tier=quick bound="all byte strings of length 0..=9" outside="inputs longer than 9 bytes (the decoder reads at most 9)"
vt_proof! { unwind = 11; fn c27_decode_any_bytes() {
    let bytes: [u8; 9] = kani::any();
    let len = crate::common::any_len(9);
    let inp = &bytes[..len];
    let r = decode_varint(inp);
    let e = ref_decode(inp);
    match (r, e) {
        (Ok((v, n)), Some((ev, en))) => {
            kani::cover!(n == 9, "w:nine_byte_form");
            kani::cover!(n == 2, "w:two_byte_form");
            assert!(n <= len, "role=consumed_within_input");
            assert!(n == en, "role=decode_consumed_matches_format");
            assert!(v == ev, "role=decode_value_matches_format");
            assert!(varint_len(v) <= n, "role=canonical_len_not_longer");
        }
        (Err(_), None) => { kani::cover!(len > 0, "w:error_on_nonempty"); }
        (Ok(_), None) => assert!(false, "role=accepts_invalid_or_truncated"),
        (Err(_), Some(_)) => assert!(false, "role=rejects_valid"),
    }
}}

// @vt prop=C27 tier=quick bound="all pairs of u64" outside="none"
vt_proof! { unwind = 2; fn c27_len_monotone_and_minimal() {
    let a: u64 = kani::any();
    let b: u64 = kani::any();
    if a <= b { assert!(varint_len(a) <= varint_len(b), "role=varint_len_monotone"); }
    // canonical: no shorter form can hold the value (capacity of each form from the format table)
    let cap = |n: usize| -> u64 { match n { 1 => 240, 2 => 2287, 3 => 67823, 4 => 0xFF_FFFF, 5 => 0xFFFF_FFFF, _ => u64::MAX } };
    let n = varint_len(a);
    assert!(a <= cap(n), "role=len_fits");
    if n > 1 { let shorter = if n == 9 { 5 } else { n - 1 }; assert!(a > cap(shorter), "role=len_minimal"); }
}}
