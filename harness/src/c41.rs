//! C41 / C20 — calendar conversions: the three internal day-number converters agree with the proleptic Gregorian
//! calendar and with each other, the inverse converter inverts, validity predicates follow the Gregorian rule.
//! (private helpers reached through the `kahflane_turdb_verif` hook wrappers)
use turdb::constraints::verif_hooks::days_from_ymd;
use turdb::parsing::literal_verif_hooks as lit;
use turdb::sql::functions::datetime::verif_hooks as dt;

/// Reference: days since 1970-01-01 of a proleptic Gregorian date (Hinnant's days_from_civil), the trusted base.
pub fn ref_days(y: i64, m: i64, d: i64) -> i64 {
    let y = if m <= 2 { y - 1 } else { y };
    let era = (if y >= 0 { y } else { y - 399 }) / 400;
    let yoe = y - era * 400;
    let mp = (m + 9) % 12;
    let doy = (153 * mp + 2) / 5 + d - 1;
    let doe = yoe * 365 + yoe / 4 - yoe / 100 + doy;
    era * 146097 + doe - 719468
}
pub fn ref_leap(y: i64) -> bool { (y % 4 == 0 && y % 100 != 0) || y % 400 == 0 }
pub fn ref_dim(y: i64, m: u32) -> u32 {
    match m { 1 | 3 | 5 | 7 | 8 | 10 | 12 => 31, 4 | 6 | 9 | 11 => 30, 2 => if ref_leap(y) { 29 } else { 28 }, _ => 0 }
}
fn any_date(ymin: i32, ymax: i32) -> (i32, u32, u32) {
    let y: i32 = kani::any(); let m: u32 = kani::any(); let d: u32 = kani::any();
    kani::assume(y >= ymin && y <= ymax && m >= 1 && m <= 12 && d >= 1 && d <= ref_dim(y as i64, m));
    (y, m, d)
}

// @vt prop=C41 tier=quick bound="DEFAULT-date converter days_from_ymd: every valid date in years 1..=9999" outside="years outside 1..=9999; the text layer (split/parse)" timeout=1800
vt_proof! { unwind = 2; fn c41_default_converter_all_dates() {
    let (y, m, d) = any_date(1, 9999);
    kani::cover!(y == 2100 && m == 2 && d == 28, "w:century_non_leap_february");
    kani::cover!(y == 1 && m == 1 && d == 1, "w:first_day");
    assert!(days_from_ymd(y, m, d) as i64 == ref_days(y as i64, m as i64, d as i64), "role=default_converter_matches_gregorian");
}}

// @vt prop=C41,C20 tier=quick bound="date-function converter date_to_days (offset 719163): every valid date in years 1..=9999" outside="years outside 1..=9999" timeout=1800
vt_proof! { unwind = 2; fn c41_function_converter_all_dates() {
    let (y, m, d) = any_date(1, 9999);
    kani::cover!(y == 2000 && m == 2 && d == 29, "w:leap_day_2000");
    assert!(dt::date_to_days(y as i64, m, d) - 719163 == ref_days(y as i64, m as i64, d as i64), "role=function_converter_matches_gregorian");
}}

// @vt prop=C41 tier=quick bound="literal converter date_to_days_since_epoch (year loop): every valid date in years 1900..=2100" outside="years outside 1900..=2100 in the quick tier (thorough: 1800..=2200)" timeout=1800
vt_proof! { unwind = 135; fn c41_literal_converter_1900_2100() {
    let (y, m, d) = any_date(1900, 2100);
    kani::cover!(y == 1900 && m == 3 && d == 1, "w:after_non_leap_february_1900");
    kani::cover!(y == 2100 && m == 1 && d == 31, "w:january_of_century_year");
    assert!(lit::date_to_days_since_epoch(y, m, d) as i64 == ref_days(y as i64, m as i64, d as i64), "role=literal_converter_matches_gregorian");
}}

// @vt prop=C41 tier=thorough bound="literal converter date_to_days_since_epoch (year loop): every valid date in years 1800..=2200 (loop bound 230 = 2200-1970)" outside="years outside 1800..=2200 (validation runs: 1..=9999 at unwind 8035 and 1700..=2300 at unwind 335 both hit the 2 h cap; 1800..=2200 takes 65 min)" timeout=7200 mem=24
vt_proof! { unwind = 235; fn c41_literal_converter_1800_2200() {
    let (y, m, d) = any_date(1800, 2200);
    kani::cover!(y == 1800 && m == 2 && d == 28, "w:early_century_year");
    kani::cover!(y == 2200 && m == 3 && d == 1, "w:late_century_year");
    assert!(lit::date_to_days_since_epoch(y, m, d) as i64 == ref_days(y as i64, m as i64, d as i64), "role=literal_converter_matches_gregorian");
}}

// @vt prop=C41,C20 tier=quick bound="days_to_date(date_to_days(y,m,d)) == (y,m,d): every valid date in years 1600..=2400" outside="years outside 1600..=2400 in the quick tier (thorough: 1..=9999)" timeout=1800
vt_proof! { unwind = 2; fn c41_inverse_1600_2400() {
    let (y, m, d) = any_date(1600, 2400);
    let n = dt::date_to_days(y as i64, m, d);
    kani::cover!(m == 12 && d == 31, "w:last_day_of_year");
    assert!(dt::days_to_date(n) == (y as i64, m, d), "role=days_to_date_inverts_date_to_days");
}}

// @vt prop=C41 tier=thorough bound="days_to_date(date_to_days(y,m,d)) == (y,m,d): every valid date in years 1..=9999" outside="years outside 1..=9999" timeout=7200 mem=24
vt_proof! { unwind = 2; fn c41_inverse_all_dates() {
    let (y, m, d) = any_date(1, 9999);
    let n = dt::date_to_days(y as i64, m, d);
    assert!(dt::days_to_date(n) == (y as i64, m, d), "role=days_to_date_inverts_date_to_days");
    kani::cover!(y == 9999 && m == 12 && d == 31, "w:last_day");
}}

// @vt prop=C41 tier=quick bound="validity predicates: is_leap_year / days_in_month of the literal parser (all i32 years, all u32 months) and of the date functions (all years 1..=9999; months 1..=12)" outside="date-function days_in_month for months outside 1..=12 (callers validate the month first)" timeout=1800
vt_proof! { unwind = 2; fn c41_validity_predicates() {
    let y: i32 = kani::any(); let m: u32 = kani::any();
    assert!(lit::is_leap_year(y) == ref_leap(y as i64), "role=literal_leap_year_rule");
    assert!(lit::days_in_month(y, m) == ref_dim(y as i64, m), "role=literal_days_in_month_rule");
    let y2: i64 = kani::any(); kani::assume(y2 >= 1 && y2 <= 9999);
    assert!(dt::is_leap_year(y2) == ref_leap(y2), "role=function_leap_year_rule");
    if m >= 1 && m <= 12 { assert!(dt::days_in_month(y2, m) == ref_dim(y2, m), "role=function_days_in_month_rule"); }
    kani::cover!(y == 1900 && m == 2, "w:feb_1900");
    kani::cover!(m == 13, "w:invalid_month");
}}

// @vt prop=C20,C41 tier=quick bound="day_of_year and day_of_week: every valid date in years 1583..=2400 (weekday reference: day number mod 7, 1970-01-01 = Thursday)" outside="years outside 1583..=2400 in the quick tier" timeout=1800
vt_proof! { unwind = 2; fn c20_day_of_week_and_year() {
    let (y, m, d) = any_date(1583, 2400);
    let n = ref_days(y as i64, m as i64, d as i64);
    let doy = n - ref_days(y as i64, 1, 1) + 1;
    assert!(dt::day_of_year(y as i64, m, d) as i64 == doy, "role=day_of_year_matches_gregorian");
    // 1970-01-01 was a Thursday (4 with Sunday = 0)
    let wd = ((n % 7) + 7 + 4) % 7;
    assert!(dt::day_of_week(y as i64, m, d) as i64 == wd, "role=day_of_week_matches_gregorian");
    kani::cover!(y == 2000 && m == 1 && d == 1, "w:y2k");
}}
