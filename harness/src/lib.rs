//! Kani proof harnesses over the real `turdb` crate (path dependency on /repo).
//! One module per property. Harness metadata lives in `// @vt` comment lines which the
//! runner (/verif/vt) scans; see DESIGN.md.
#![allow(dead_code, unused_imports, unused_macros, clippy::all)]

pub mod common;

/// Proof harness with the mandatory environment stubs (eyre handler, fmt::format,
/// Report::drop) and the "no AVX2" CPU model.
#[macro_export]
macro_rules! vt_proof {
    (unwind = $u:expr; fn $name:ident() $body:block) => {
        #[cfg(kani)]
        #[kani::proof]
        #[kani::stub(eyre::capture_handler, $crate::common::stub_capture_handler)]
        #[kani::stub(alloc::fmt::format, $crate::common::stub_format)]
        #[kani::stub(<eyre::Report as core::ops::Drop>::drop, $crate::common::stub_report_drop)]
        #[kani::stub(core::arch::x86_64::__cpuid_count, $crate::common::stub_cpuid_noavx)]
        #[kani::unwind($u)]
        pub fn $name() $body
    };
}
/// JSONB harness: base stubs + `core::str::from_utf8` restricted to ASCII (common::stub_from_utf8_ascii).
#[macro_export]
macro_rules! vt_proof_ascii {
    (unwind = $u:expr; fn $name:ident() $body:block) => {
        #[cfg(kani)]
        #[kani::proof]
        #[kani::stub(eyre::capture_handler, $crate::common::stub_capture_handler)]
        #[kani::stub(alloc::fmt::format, $crate::common::stub_format)]
        #[kani::stub(<eyre::Report as core::ops::Drop>::drop, $crate::common::stub_report_drop)]
        #[kani::stub(core::arch::x86_64::__cpuid_count, $crate::common::stub_cpuid_noavx)]
        #[kani::stub(core::str::validations::run_utf8_validation, $crate::common::stub_from_utf8_ascii)]
        #[kani::unwind($u)]
        pub fn $name() $body
    };
}
/// Page-level harness: base stubs + `core::ptr::copy` as a byte loop (see common::stub_ptr_copy).
#[macro_export]
macro_rules! vt_proof_pg {
    (unwind = $u:expr; fn $name:ident() $body:block) => {
        #[cfg(kani)]
        #[kani::proof]
        #[kani::stub(eyre::capture_handler, $crate::common::stub_capture_handler)]
        #[kani::stub(alloc::fmt::format, $crate::common::stub_format)]
        #[kani::stub(<eyre::Report as core::ops::Drop>::drop, $crate::common::stub_report_drop)]
        #[kani::stub(core::arch::x86_64::__cpuid_count, $crate::common::stub_cpuid_noavx)]
        #[kani::stub(core::ptr::copy, $crate::common::stub_ptr_copy)]
        #[kani::unwind($u)]
        pub fn $name() $body
    };
}
/// Page-level harness with `find_key_simd` replaced by its specification (see common::stub_find_key_simd).
#[macro_export]
macro_rules! vt_proof_pg_findspec {
    (unwind = $u:expr; fn $name:ident() $body:block) => {
        #[cfg(kani)]
        #[kani::proof]
        #[kani::stub(eyre::capture_handler, $crate::common::stub_capture_handler)]
        #[kani::stub(alloc::fmt::format, $crate::common::stub_format)]
        #[kani::stub(<eyre::Report as core::ops::Drop>::drop, $crate::common::stub_report_drop)]
        #[kani::stub(core::arch::x86_64::__cpuid_count, $crate::common::stub_cpuid_noavx)]
        #[kani::stub(core::ptr::copy, $crate::common::stub_ptr_copy)]
        #[kani::stub(turdb::btree::simd_scan::find_key_simd, $crate::common::stub_find_key_simd)]
        #[kani::unwind($u)]
        pub fn $name() $body
    };
}
/// Freelist harness: page-level stubs + the TrunkHeader zerocopy cast wrappers replaced by plain casts (c34.rs).
#[macro_export]
macro_rules! vt_proof_fl {
    (unwind = $u:expr; fn $name:ident() $body:block) => {
        #[cfg(kani)]
        #[kani::proof]
        #[kani::stub(eyre::capture_handler, $crate::common::stub_capture_handler)]
        #[kani::stub(alloc::fmt::format, $crate::common::stub_format)]
        #[kani::stub(<eyre::Report as core::ops::Drop>::drop, $crate::common::stub_report_drop)]
        #[kani::stub(core::arch::x86_64::__cpuid_count, $crate::common::stub_cpuid_noavx)]
        #[kani::stub(turdb::storage::TrunkHeader::from_bytes, $crate::c34::stub_trunk_from_bytes)]
        #[kani::stub(turdb::storage::TrunkHeader::from_bytes_mut, $crate::c34::stub_trunk_from_bytes_mut)]
        #[kani::unwind($u)]
        pub fn $name() $body
    };
}
/// Same, with the "AVX2" CPU model.
#[macro_export]
macro_rules! vt_proof_avx2 {
    (unwind = $u:expr; fn $name:ident() $body:block) => {
        #[cfg(kani)]
        #[kani::proof]
        #[kani::stub(eyre::capture_handler, $crate::common::stub_capture_handler)]
        #[kani::stub(alloc::fmt::format, $crate::common::stub_format)]
        #[kani::stub(<eyre::Report as core::ops::Drop>::drop, $crate::common::stub_report_drop)]
        #[kani::stub(core::arch::x86_64::__cpuid_count, $crate::common::stub_cpuid_avx2)]
        #[kani::stub(core::arch::x86_64::_xgetbv, $crate::common::stub_xgetbv)]
        #[kani::unwind($u)]
        pub fn $name() $body
    };
}

/// Trivial harness used by `vt setup` / the base build to compile turdb for Kani.
#[cfg(kani)]
#[kani::proof]
pub fn vt_build_anchor() {}

/// Case-split on the first byte of a buffer and write the constant back, so that CBMC's symbolic
/// execution sees a *concrete* type prefix inside each branch and does not unfold the recursive
/// arms of `decode_key` (sound: the final `else` asserts that no other prefix occurs).
#[macro_export]
macro_rules! for_prefix {
    ($buf:expr, [$($p:expr),+], $body:block) => {{
        let p0 = $buf[0];
        $( if p0 == $p { $buf[0] = $p; $body } else )+
        { assert!(false, "role=unexpected_type_prefix"); }
    }};
}

pub mod c08;
pub mod c10;
pub mod c11;
pub mod c14;
pub mod c15;
pub mod c16;
pub mod c20;
pub mod c23;
pub mod c26;
pub mod c27;
#[cfg(feature = "sp")]
pub mod pg;
#[cfg(feature = "sp")]
pub mod c28;
#[cfg(feature = "sp")]
pub mod c28t;
#[cfg(feature = "sp")]
pub mod c28u;
#[cfg(feature = "sp")]
pub mod c30;
pub mod c31;
pub mod c32;
pub mod c33;
pub mod c39;
#[cfg(feature = "sp")]
pub mod c34;
pub mod c41;

#[cfg(all(kani, test))]
mod replay_gen;
