//! Hand-built B-tree pages at concrete offsets with symbolic contents (small-page build).
//!
//! Layout facts used here are the documented on-page format (src/storage/page.rs, src/btree/leaf.rs,
//! src/btree/interior.rs): 16-byte page header {type, flags, cell_count u16, free_start u16, free_end u16,
//! frag u8, reserved[3], right_child/next_leaf u32}, 8 bytes leaf header, slots of 8 bytes
//! {prefix[4], offset u16, key_len u16} from byte 24, cells {key, varint(value_len), value} growing down
//! from the end of the page. Building pages directly (instead of through a long history of inserts) is what
//! makes "any valid page" a solver variable; the builders are validated against the real accessors by the
//! `*_builder_matches_real_accessors` harnesses.
use turdb::storage::PAGE_SIZE;

pub const CONTENT: usize = 24;
pub const SLOT: usize = 8;
pub const T_INTERIOR: u8 = 0x01;
pub const T_LEAF: u8 = 0x02;

pub fn put16(p: &mut [u8; PAGE_SIZE], at: usize, v: u16) {
    p[at] = v as u8;
    p[at + 1] = (v >> 8) as u8;
}
pub fn get16(p: &[u8; PAGE_SIZE], at: usize) -> u16 {
    p[at] as u16 | ((p[at + 1] as u16) << 8)
}
pub fn put32(p: &mut [u8; PAGE_SIZE], at: usize, v: u32) {
    p[at] = v as u8;
    p[at + 1] = (v >> 8) as u8;
    p[at + 2] = (v >> 16) as u8;
    p[at + 3] = (v >> 24) as u8;
}

/// A leaf cell description: key bytes (first `klen` of K), value bytes (first `vlen` of V), both < 241 so the
/// value-length varint is one byte.
#[derive(Clone, Copy)]
pub struct Cell<const K: usize, const V: usize> {
    pub key: [u8; K],
    pub klen: usize,
    pub val: [u8; V],
    pub vlen: usize,
}

#[cfg(kani)]
impl<const K: usize, const V: usize> Cell<K, V> {
    pub fn any(kmin: usize) -> Self {
        let c = Cell { key: kani::any(), klen: kani::any(), val: kani::any(), vlen: kani::any() };
        kani::assume(c.klen >= kmin && c.klen <= K && c.vlen <= V);
        c
    }
    pub fn k(&self) -> &[u8] { &self.key[..self.klen] }
    pub fn v(&self) -> &[u8] { &self.val[..self.vlen] }
}

/// Writes a leaf with the first `n` of `cells` (must be strictly increasing by key — the caller assumes it),
/// each cell in its own fixed-stride region below `top` (so offsets are concrete), `free_end` = lowest cell
/// region minus `slack` (symbolic slack models fragmentation / nearly-full pages).
pub fn write_leaf<const K: usize, const V: usize, const N: usize>(
    p: &mut [u8; PAGE_SIZE], cells: &[Cell<K, V>; N], n: usize, top: usize, next_leaf: u32, frag: u8,
) -> usize {
    let stride = K + 1 + V;
    p[0] = T_LEAF;
    p[1] = 0;
    put16(p, 2, n as u16);
    put16(p, 4, (CONTENT + n * SLOT) as u16);
    p[8] = frag;
    put32(p, 12, next_leaf);
    let mut i = 0;
    while i < N {
        let off = top - (i + 1) * stride;
        let c = &cells[i];
        let mut j = 0;
        while j < K { if j < c.klen { p[off + j] = c.key[j]; } j += 1; }
        // varint(value_len) is one byte for vlen <= 240, placed right after the key
        let mut j = 0;
        while j <= K { if j == c.klen { p[off + j] = c.vlen as u8; } j += 1; }
        let mut j = 0;
        while j < V { if j < c.vlen { let mut q = 0; while q <= K { if q == c.klen { p[off + q + 1 + j] = c.val[j]; } q += 1; } } j += 1; }
        let so = CONTENT + i * SLOT;
        let mut j = 0;
        while j < 4 { p[so + j] = if j < c.klen && j < K { c.key[j] } else { 0 }; j += 1; }
        put16(p, so + 4, off as u16);
        put16(p, so + 6, c.klen as u16);
        i += 1;
    }
    // free_end: just below the n-th cell region (cells of index >= n are stale bytes in free space)
    let mut fe = top;
    let mut i = 0;
    while i < N { if i < n { fe = top - (i + 1) * stride; } i += 1; }
    put16(p, 6, fe as u16);
    fe
}

pub fn lex_lt(a: &[u8], b: &[u8]) -> bool {
    crate::common::lex_cmp(a, b) == core::cmp::Ordering::Less
}

// ------------------------------------------------------------------------------------------------
// Concrete-shape pages: lengths and offsets are concrete (chosen by the harness from a menu), only the
// key / value BYTES are symbolic. With concrete shapes every page index in the real code is concrete
// during symbolic execution, which is what makes whole B-tree operations tractable; the solver decides
// the byte-level behaviour (ordering, prefix ties, zero padding, equality).

/// One logical entry with concrete lengths and symbolic bytes.
#[derive(Clone, Copy)]
pub struct Ent {
    pub k: [u8; 6],
    pub kl: usize,
    pub v: [u8; 4],
    pub vl: usize,
}
impl Ent {
    pub fn key(&self) -> &[u8] { &self.k[..self.kl] }
    pub fn val(&self) -> &[u8] { &self.v[..self.vl] }
    pub fn cell_size(&self) -> usize { self.kl + 1 + self.vl }
    #[cfg(kani)]
    pub fn any(kl: usize, vl: usize) -> Ent { Ent { k: kani::any(), kl, v: kani::any(), vl } }
    pub const ZERO: Ent = Ent { k: [0; 6], kl: 0, v: [0; 4], vl: 0 };
}

/// Writes a leaf holding `ents[..n]` (caller assumes strictly increasing keys). Cells are packed downwards from
/// `top` in slot order; `slack` dead bytes are left between free_end and the lowest cell. Returns free_end.
pub fn put_leaf(p: &mut [u8; PAGE_SIZE], ents: &[Ent], n: usize, top: usize, slack: usize, next_leaf: u32, frag: u8) -> usize {
    p[0] = T_LEAF;
    p[1] = 0;
    put16(p, 2, n as u16);
    put16(p, 4, (CONTENT + n * SLOT) as u16);
    p[8] = frag;
    put32(p, 12, next_leaf);
    let mut off = top;
    let mut i = 0;
    while i < n {
        let e = &ents[i];
        off -= e.cell_size();
        let mut j = 0;
        while j < e.kl { p[off + j] = e.k[j]; j += 1; }
        p[off + e.kl] = e.vl as u8;
        let mut j = 0;
        while j < e.vl { p[off + e.kl + 1 + j] = e.v[j]; j += 1; }
        let so = CONTENT + i * SLOT;
        let mut j = 0;
        while j < 4 { p[so + j] = if j < e.kl { e.k[j] } else { 0 }; j += 1; }
        put16(p, so + 4, off as u16);
        put16(p, so + 6, e.kl as u16);
        i += 1;
    }
    let fe = off - slack;
    put16(p, 6, fe as u16);
    fe
}

pub fn sorted(ents: &[Ent], n: usize) -> bool {
    let mut i = 1;
    let mut ok = true;
    while i < n { if !lex_lt(ents[i - 1].key(), ents[i].key()) { ok = false; } i += 1; }
    ok
}

/// Representation invariant of a leaf page (C29), checked through raw page bytes only.
/// `nmax` bounds the loops; returns the first violated clause as a small code (0 = ok) so that each
/// clause can be asserted under its own role.
pub fn leaf_invariant(p: &[u8; PAGE_SIZE], nmax: usize) -> u8 {
    if p[0] != T_LEAF { return 1; }
    let n = get16(p, 2) as usize;
    if n > nmax { return 2; }
    let fs = get16(p, 4) as usize;
    let fe = get16(p, 6) as usize;
    if fs != CONTENT + n * SLOT { return 3; }
    if fs > fe || fe > PAGE_SIZE { return 4; }
    let mut i = 0;
    while i < nmax {
        if i < n {
            let so = CONTENT + i * SLOT;
            let off = get16(p, so + 4) as usize;
            let kl = get16(p, so + 6) as usize;
            if off < fe { return 5; }
            if off + kl + 1 > PAGE_SIZE { return 6; }
            let vl = p[off + kl] as usize; // one-byte varint in all harness shapes (values <= 240 bytes)
            if vl > 240 { return 7; }
            let end = off + kl + 1 + vl;
            if end > PAGE_SIZE { return 6; }
            // slot prefix = first 4 key bytes zero padded
            let mut j = 0;
            while j < 4 { let want = if j < kl { p[off + j] } else { 0 }; if p[so + j] != want { return 8; } j += 1; }
            // pairwise disjoint cells
            let mut q = 0;
            while q < nmax {
                if q < i {
                    let so2 = CONTENT + q * SLOT;
                    let off2 = get16(p, so2 + 4) as usize;
                    let kl2 = get16(p, so2 + 6) as usize;
                    let end2 = off2 + kl2 + 1 + p[off2 + kl2] as usize;
                    if !(end <= off2 || end2 <= off) { return 9; }
                    // strictly increasing keys
                    if q + 1 == i && !lex_lt(&p[off2..off2 + kl2], &p[off..off + kl]) { return 10; }
                }
                q += 1;
            }
        }
        i += 1;
    }
    0
}

/// Writes an interior page: separators `seps[i]` (concrete lengths, symbolic or concrete bytes) with their left child
/// pages, plus the right-most child. Layout per src/btree/interior.rs: 12-byte slots {prefix[4], child u32, offset u16,
/// key_len u16} from byte 16, separator keys packed downwards from the end of the page, right child in the header.
pub fn put_interior(p: &mut [u8; PAGE_SIZE], seps: &[Ent], children: &[u32], n: usize, right_child: u32) {
    p[0] = T_INTERIOR;
    p[1] = 0;
    put16(p, 2, n as u16);
    put16(p, 4, (16 + n * 12) as u16);
    p[8] = 0;
    put32(p, 12, right_child);
    let mut off = PAGE_SIZE;
    let mut i = 0;
    while i < n {
        let e = &seps[i];
        off -= e.kl;
        let mut j = 0;
        while j < e.kl { p[off + j] = e.k[j]; j += 1; }
        let so = 16 + i * 12;
        let mut j = 0;
        while j < 4 { p[so + j] = if j < e.kl { e.k[j] } else { 0 }; j += 1; }
        put32(p, so + 4, children[i]);
        put16(p, so + 8, off as u16);
        put16(p, so + 10, e.kl as u16);
        i += 1;
    }
    put16(p, 6, off as u16);
}
