//! C33 — spilled rows round-trip through the spill format (src/sql/row_serde.rs).
use smallvec::SmallVec;
use std::borrow::Cow;
use turdb::sql::row_serde::RowSerde;
use turdb::types::Value;

type Out = SmallVec<[Value<'static>; 16]>;

/// Discriminant bytes of the spill format, from the module documentation of row_serde.rs (the module's own
/// constants are private). Fixed-width variants only.
const FIXED_DISC: [u8; 20] = [0x01, 0x10, 0x12, 0x13, 0x14, 0x15, 0x16, 0x18, 0x19, 0x33, 0x34, 0x40, 0x41, 0x42, 0x43, 0x63, 0x80, 0x81, 0x82, 0x83];

/// Case split on the discriminant byte at `idx`, writing the constant back so that symbolic execution sees a
/// concrete discriminant and does not unfold the heap-allocating arms (text/blob/vector) of the decoder with
/// symbolic lengths. Exhaustive: the final else asserts that no other discriminant was written by the encoder.
macro_rules! with_disc {
    ($buf:expr, $idx:expr, [$($d:expr),+], $body:block) => {{
        let d0 = $buf[$idx];
        $( if d0 == $d { $buf[$idx] = $d; $body } else )+
        { assert!(false, "role=unexpected_discriminant"); }
    }};
}
macro_rules! with_fixed_disc_or_other {
    ($buf:expr, $idx:expr, $body:block) => {{
        let d0 = $buf[$idx];
        if d0 == 0x01 { $buf[$idx] = 0x01; $body } else if d0 == 0x10 { $buf[$idx] = 0x10; $body } else if d0 == 0x12 { $buf[$idx] = 0x12; $body }
        else if d0 == 0x13 { $buf[$idx] = 0x13; $body } else if d0 == 0x14 { $buf[$idx] = 0x14; $body } else if d0 == 0x15 { $buf[$idx] = 0x15; $body }
        else if d0 == 0x16 { $buf[$idx] = 0x16; $body } else if d0 == 0x18 { $buf[$idx] = 0x18; $body } else if d0 == 0x19 { $buf[$idx] = 0x19; $body }
        else if d0 == 0x33 { $buf[$idx] = 0x33; $body } else if d0 == 0x34 { $buf[$idx] = 0x34; $body } else if d0 == 0x40 { $buf[$idx] = 0x40; $body }
        else if d0 == 0x41 { $buf[$idx] = 0x41; $body } else if d0 == 0x42 { $buf[$idx] = 0x42; $body } else if d0 == 0x43 { $buf[$idx] = 0x43; $body }
        else if d0 == 0x63 { $buf[$idx] = 0x63; $body } else if d0 == 0x80 { $buf[$idx] = 0x80; $body } else if d0 == 0x81 { $buf[$idx] = 0x81; $body }
        else if d0 == 0x82 { $buf[$idx] = 0x82; $body } else if d0 == 0x83 { $buf[$idx] = 0x83; $body }
        else { $buf[$idx] = 0x02; $body } // every other byte is an unknown discriminant: 0x02 stands for the class (decoder has one `_ =>` arm)
    }};
}
macro_rules! with_fixed_disc {
    ($buf:expr, $idx:expr, $body:block) => {
        with_disc!($buf, $idx, [0x01u8, 0x10u8, 0x12u8, 0x13u8, 0x14u8, 0x15u8, 0x16u8, 0x18u8, 0x19u8, 0x33u8, 0x34u8, 0x40u8, 0x41u8, 0x42u8, 0x43u8, 0x63u8, 0x80u8, 0x81u8, 0x82u8, 0x83u8], $body)
    };
}

/// Bitwise equality including the variant (the property says "equal row of the same types").
/// NaN payloads: any NaN must come back as a NaN.
fn feq(a: f64, b: f64) -> bool { (a.is_nan() && b.is_nan()) || a.to_bits() == b.to_bits() }
fn same(a: &Value, b: &Value) -> bool {
    match (a, b) {
        (Value::Null, Value::Null) => true,
        (Value::Int(x), Value::Int(y)) => x == y,
        (Value::Float(x), Value::Float(y)) => feq(*x, *y),
        (Value::Uuid(x), Value::Uuid(y)) => x == y,
        (Value::MacAddr(x), Value::MacAddr(y)) => x == y,
        (Value::Inet4(x), Value::Inet4(y)) => x == y,
        (Value::Inet6(x), Value::Inet6(y)) => x == y,
        (Value::TimestampTz { micros: a, offset_secs: b }, Value::TimestampTz { micros: c, offset_secs: d }) => a == c && b == d,
        (Value::Interval { micros: a, days: b, months: c }, Value::Interval { micros: d, days: e, months: f }) => a == d && b == e && c == f,
        (Value::Point { x: a, y: b }, Value::Point { x: c, y: d }) => a.to_bits() == c.to_bits() && b.to_bits() == d.to_bits(),
        (Value::GeoBox { low: a, high: b }, Value::GeoBox { low: c, high: d }) =>
            a.0.to_bits() == c.0.to_bits() && a.1.to_bits() == c.1.to_bits() && b.0.to_bits() == d.0.to_bits() && b.1.to_bits() == d.1.to_bits(),
        (Value::Circle { center: a, radius: r }, Value::Circle { center: c, radius: s }) =>
            a.0.to_bits() == c.0.to_bits() && a.1.to_bits() == c.1.to_bits() && r.to_bits() == s.to_bits(),
        (Value::Enum { type_id: a, ordinal: b }, Value::Enum { type_id: c, ordinal: d }) => a == c && b == d,
        (Value::Decimal { digits: a, scale: b }, Value::Decimal { digits: c, scale: d }) => a == c && b == d,
        _ => false,
    }
}
/// Same numeric value, ignoring the Int/Float variant (used to separate "value lost" from "type lost").
fn same_value_loose(a: &Value, b: &Value) -> bool {
    match (a, b) {
        (Value::Float(x), Value::Int(y)) => *x == *y as f64,
        _ => same(a, b),
    }
}

fn any_scalar() -> Value<'static> {
    let k: u8 = kani::any();
    kani::assume(k < 14);
    match k {
        0 => Value::Null,
        1 => Value::Int(kani::any()),
        2 => Value::Float(kani::any()),
        3 => Value::Uuid(kani::any()),
        4 => Value::MacAddr(kani::any()),
        5 => Value::Inet4(kani::any()),
        6 => Value::Inet6(kani::any()),
        7 => Value::TimestampTz { micros: kani::any(), offset_secs: kani::any() },
        8 => Value::Interval { micros: kani::any(), days: kani::any(), months: kani::any() },
        9 => Value::Point { x: kani::any(), y: kani::any() },
        10 => Value::GeoBox { low: (kani::any(), kani::any()), high: (kani::any(), kani::any()) },
        11 => Value::Circle { center: (kani::any(), kani::any()), radius: kani::any() },
        12 => Value::Enum { type_id: kani::any(), ordinal: kani::any() },
        _ => Value::Decimal { digits: kani::any(), scale: kani::any() },
    }
}

/// One-column row round trip for a fixed-width value. `$discs` = the discriminants this group can produce (from the
/// documented format); the decoder input is a stack copy whose column count and discriminant are made concrete by an
/// exhaustive case split (heap bytes are not constant-propagated by CBMC, and a symbolic column count / discriminant
/// makes symbolic execution unfold the text/blob/vector arms with symbolic lengths).
macro_rules! scalar_rt {
    ($v:expr, [$($d:expr),+]) => {{
        let row = [$v];
        let mut buf: Vec<u8> = Vec::with_capacity(48);
        RowSerde::serialize_row_into(&row, &mut buf);
        assert!(buf.len() == RowSerde::row_size(&row), "role=row_size_equals_bytes_written");
        let mut arr = [0u8; 40];
        let n = buf.len();
        assert!(n <= 35, "role=scalar_row_fits");
        let mut i = 0; while i < 35 { if i < n { arr[i] = buf[i]; } i += 1; }
        assert!(arr[0] == 0 && arr[1] == 1, "role=column_count_field"); arr[0] = 0; arr[1] = 1;
        let mut out: Out = SmallVec::new();
        with_disc!(arr, 2, [$($d),+], {
            let mut off = 0usize;
            let r = RowSerde::deserialize_row_into(&arr[..n], &mut off, &mut out);
            assert!(r.is_ok(), "role=deserialize_ok");
            assert!(off == n, "role=offset_advances_by_row_size");
            assert!(out.len() == 1, "role=column_count");
            assert!(same_value_loose(&row[0], &out[0]), "role=value_equal");
            assert!(same(&row[0], &out[0]), "role=variant_and_bits_equal");
            core::mem::forget(r);
        });
        core::mem::forget((buf, out, row));
    }};
}

// @vt prop=C33 tier=quick bound="one-column rows: Null and every i64" outside="multi-column rows" timeout=1800
vt_proof! { unwind = 37; fn c33_rt_null_int() {
    let k: bool = kani::any();
    let v: Value<'static> = if k { Value::Null } else { Value::Int(kani::any()) };
    kani::cover!(matches!(v, Value::Int(i64::MIN)), "w:int_min");
    kani::cover!(matches!(v, Value::Int(0)), "w:int_zero");
    scalar_rt!(v, [0x01u8, 0x12u8, 0x14u8, 0x16u8]);
}}

// @vt prop=C33 tier=quick bound="one-column rows: every f64 bit pattern" outside="multi-column rows" timeout=1800
vt_proof! { unwind = 37; fn c33_rt_float() {
    let f: f64 = kani::any();
    kani::cover!(f < 0.0, "w:negative_float");
    kani::cover!(f.to_bits() == 0x8000_0000_0000_0000, "w:negative_zero");
    scalar_rt!(Value::Float(f), [0x10u8, 0x13u8, 0x14u8, 0x15u8, 0x18u8, 0x19u8]);
}}

// @vt prop=C33 tier=quick bound="one-column rows: Uuid, MacAddr, Inet4, Inet6 with arbitrary bytes" outside="multi-column rows" timeout=1800
vt_proof! { unwind = 37; fn c33_rt_addr() {
    let k: u8 = kani::any(); kani::assume(k < 4);
    let v: Value<'static> = match k { 0 => Value::Uuid(kani::any()), 1 => Value::MacAddr(kani::any()), 2 => Value::Inet4(kani::any()), _ => Value::Inet6(kani::any()) };
    kani::cover!(k == 1, "w:macaddr");
    scalar_rt!(v, [0x40u8, 0x41u8, 0x42u8, 0x43u8]);
}}

// @vt prop=C33 tier=quick bound="one-column rows: TimestampTz, Interval, Enum, Decimal with arbitrary fields (i128 digits)" outside="multi-column rows" timeout=1800
vt_proof! { unwind = 37; fn c33_rt_temporal_enum_decimal() {
    let k: u8 = kani::any(); kani::assume(k < 4);
    let v: Value<'static> = match k {
        0 => Value::TimestampTz { micros: kani::any(), offset_secs: kani::any() },
        1 => Value::Interval { micros: kani::any(), days: kani::any(), months: kani::any() },
        2 => Value::Enum { type_id: kani::any(), ordinal: kani::any() },
        _ => Value::Decimal { digits: kani::any(), scale: kani::any() } };
    kani::cover!(k == 3, "w:decimal");
    scalar_rt!(v, [0x33u8, 0x34u8, 0x63u8, 0x83u8]);
}}

// @vt prop=C33 tier=quick bound="one-column rows: Point, GeoBox, Circle with arbitrary f64 bit patterns" outside="multi-column rows" timeout=1800
vt_proof! { unwind = 37; fn c33_rt_geo() {
    let k: u8 = kani::any(); kani::assume(k < 3);
    let v: Value<'static> = match k {
        0 => Value::Point { x: kani::any(), y: kani::any() },
        1 => Value::GeoBox { low: (kani::any(), kani::any()), high: (kani::any(), kani::any()) },
        _ => Value::Circle { center: (kani::any(), kani::any()), radius: kani::any() } };
    kani::cover!(k == 1, "w:geobox");
    scalar_rt!(v, [0x80u8, 0x81u8, 0x82u8]);
}}

/// copy a serialized buffer to the stack (see scalar_rt!)
fn to_stack(buf: &Vec<u8>) -> ([u8; 40], usize) {
    let mut arr = [0u8; 40];
    let n = buf.len();
    assert!(n <= 35, "role=row_fits");
    let mut i = 0; while i < 35 { if i < n { arr[i] = buf[i]; } i += 1; }
    (arr, n)
}


// Sequencing harnesses (two rows in one buffer; a read at the end of the buffer) were removed after measurement: the second
// `deserialize_row_into` call made the SAT time swing from 10 minutes to more than an hour between runs (time-out in two of
// four full runs), also with 16-bit values, a fresh output vector per row and without the error-path read. What remains
// of sequencing is `offset_advances_by_row_size` / `row_size_equals_bytes_written` in every single-row harness.

fn second_row(arr: &mut [u8; 40], n: usize, at: usize, row2: &[Value<'static>; 2], out: &mut Out) {
    assert!(arr[at] == 0 && arr[at + 1] == 2, "role=column_count_field"); arr[at] = 0; arr[at + 1] = 2;
    with_disc!(arr, at + 2, [0x12u8, 0x14u8, 0x16u8], {
        let mut off = at;
        let r = RowSerde::deserialize_row_into(&arr[..n], &mut off, out);
        assert!(r.is_ok(), "role=second_row_ok");
        assert!(off == n && out.len() == 2, "role=second_row_consumed");
        assert!(same(&row2[0], &out[0]) && same(&row2[1], &out[1]), "role=second_row_in_order");
        // nothing left: a third read must fail, not wrap around or panic
        let r3 = RowSerde::deserialize_row_into(&arr[..n], &mut off, out);
        assert!(r3.is_err(), "role=end_of_buffer_is_error");
        core::mem::forget((r, r3));
    });
}

fn bytes_variant(k: u8, b: Vec<u8>) -> Value<'static> {
    match k { 0 => Value::Blob(Cow::Owned(b)), 1 => Value::Jsonb(Cow::Owned(b)), 2 => Value::ToastPointer(Cow::Owned(b)),
              _ => Value::Text(Cow::Owned(unsafe { String::from_utf8_unchecked(b) })) }
}
fn bytes_of<'a>(v: &'a Value<'static>) -> Option<(u8, &'a [u8])> {
    match v { Value::Blob(b) => Some((0, &b[..])), Value::Jsonb(b) => Some((1, &b[..])), Value::ToastPointer(b) => Some((2, &b[..])), Value::Text(s) => Some((3, s.as_bytes())), _ => None }
}

// @vt prop=C33 tier=quick bound="one-column rows holding Blob / Jsonb / ToastPointer / Text of length 0..=1 (all byte values; text ASCII)" outside="payloads longer than 1 byte (thorough: 3)" timeout=1800 mem=16
vt_proof! { unwind = 37; fn c33_bytes_roundtrip_len1() {
    let data: [u8; 3] = kani::any();
    let k: u8 = kani::any(); kani::assume(k < 4);
    if k == 3 { kani::assume(data[0] < 0x80 && data[1] < 0x80 && data[2] < 0x80); }
    let n: usize = kani::any(); kani::assume(n <= 1);
    // concrete length per branch: symbolic allocation sizes are a CBMC blow-up, the case split is exhaustive
    if n == 0 { bytes_rt(k, &data, 0) } else { bytes_rt(k, &data, 1) }
}}
// @vt prop=C33 tier=thorough bound="one-column rows holding Blob / Jsonb / ToastPointer / Text of length 2..=3 (all byte values; text ASCII)" outside="payloads longer than 3 bytes" timeout=2400 mem=30
vt_proof! { unwind = 37; fn c33_bytes_roundtrip_len3() {
    let data: [u8; 3] = kani::any();
    let k: u8 = kani::any(); kani::assume(k < 4);
    if k == 3 { kani::assume(data[0] < 0x80 && data[1] < 0x80 && data[2] < 0x80); }
    let n: usize = kani::any(); kani::assume(n == 2 || n == 3);
    if n == 2 { bytes_rt(k, &data, 2) } else { bytes_rt(k, &data, 3) }
}}
fn bytes_rt(k: u8, data: &[u8; 3], n: usize) {
    let row = [bytes_variant(k, data[..n].to_vec())];
    let mut buf: Vec<u8> = Vec::with_capacity(32);
    RowSerde::serialize_row_into(&row, &mut buf);
    assert!(buf.len() == RowSerde::row_size(&row), "role=row_size_equals_bytes_written");
    assert!(buf.len() == 2 + 1 + 4 + n, "role=bytes_layout_len");
    let (mut arr, len) = to_stack(&buf);
    assert!(arr[0] == 0 && arr[1] == 1, "role=column_count_field"); arr[0] = 0; arr[1] = 1;
    assert!(arr[3] == 0 && arr[4] == 0 && arr[5] == 0 && arr[6] == n as u8, "role=length_field_big_endian");
    arr[3] = 0; arr[4] = 0; arr[5] = 0; arr[6] = n as u8;
    let mut out: Out = SmallVec::new();
    with_disc!(arr, 2, [0x20u8, 0x21u8, 0x50u8, 0x84u8], {
        let mut off = 0usize;
        let r = RowSerde::deserialize_row_into(&arr[..len], &mut off, &mut out);
        assert!(r.is_ok(), "role=deserialize_ok");
        assert!(off == len && out.len() == 1, "role=offset_advances_by_row_size");
        match bytes_of(&out[0]) {
            Some((kk, b)) => {
                assert!(kk == k, "role=variant_and_bits_equal");
                assert!(b.len() == n, "role=bytes_len_equal");
                let mut i = 0; while i < n { assert!(b[i] == data[i], "role=bytes_equal"); i += 1; }
            }
            None => assert!(false, "role=variant_and_bits_equal"),
        }
        core::mem::forget(r);
    });
    kani::cover!(k == 2, "w:toast_pointer");
    core::mem::forget((buf, out, row));
}

// @vt prop=C33 tier=quick bound="one-column rows holding a Vector of 0..=2 f32 (all bit patterns)" outside="vectors longer than 2" timeout=1800
vt_proof! { unwind = 37; fn c33_vector_roundtrip() {
    let data: [f32; 2] = kani::any();
    let n: usize = kani::any(); kani::assume(n <= 2);
    if n == 0 { vec_rt(&data, 0) } else if n == 1 { vec_rt(&data, 1) } else { vec_rt(&data, 2) }
}}
fn vec_rt(data: &[f32; 2], n: usize) {
    let row = [Value::Vector(Cow::Owned(data[..n].to_vec()))];
    let mut buf: Vec<u8> = Vec::with_capacity(32);
    RowSerde::serialize_row_into(&row, &mut buf);
    assert!(buf.len() == RowSerde::row_size(&row), "role=row_size_equals_bytes_written");
    let (mut arr, len) = to_stack(&buf);
    assert!(arr[0] == 0 && arr[1] == 1 && arr[2] == 0x70, "role=column_count_field"); arr[0] = 0; arr[1] = 1; arr[2] = 0x70;
    assert!(arr[3] == 0 && arr[4] == 0 && arr[5] == 0 && arr[6] == n as u8, "role=length_field_big_endian");
    arr[3] = 0; arr[4] = 0; arr[5] = 0; arr[6] = n as u8;
    let mut out: Out = SmallVec::new();
    let mut off = 0usize;
    let r = RowSerde::deserialize_row_into(&arr[..len], &mut off, &mut out);
    assert!(r.is_ok(), "role=deserialize_ok");
    assert!(off == len && out.len() == 1, "role=offset_advances_by_row_size");
    match &out[0] {
        Value::Vector(v) => { assert!(v.len() == n, "role=vector_len_equal"); let mut i = 0; while i < n { assert!(v[i].to_bits() == data[i].to_bits(), "role=vector_bits_equal"); i += 1; } }
        _ => assert!(false, "role=variant_and_bits_equal"),
    }
    kani::cover!(n == 2, "w:two_components");
    core::mem::forget((buf, out, row, r));
}

// @vt prop=C33,C23 tier=thorough bound="arbitrary input of 0..=14 bytes with column count 1 and an arbitrary discriminant byte (every documented discriminant and every undocumented one), arbitrary payload incl. length fields" outside="longer inputs; column counts > 1" timeout=1800 mem=16
vt_proof! { unwind = 18; fn c33_deserialize_arbitrary_bytes_no_panic() {
    let mut data: [u8; 14] = kani::any();
    let n: usize = kani::any(); kani::assume(n <= 14);
    data[0] = 0; data[1] = 1;
    let mut out: Out = SmallVec::new();
    let d0 = data[2];
    let mut any_ok = false;
    macro_rules! go { () => {{
        let mut off = 0usize;
        let r = RowSerde::deserialize_row_into(&data[..n], &mut off, &mut out);
        assert!(off <= n, "role=offset_within_input");
        if r.is_ok() { assert!(out.len() == 1, "role=ok_means_all_columns"); }
        if r.is_ok() { any_ok = true; }
        core::mem::forget(r);
    }}; }
    // fixed-width discriminants and "anything else" share one call (no allocation arms are feasible)
    if d0 == 0x20 { data[2] = 0x20; go!(); } else if d0 == 0x21 { data[2] = 0x21; go!(); } else if d0 == 0x50 { data[2] = 0x50; go!(); }
    else if d0 == 0x84 { data[2] = 0x84; go!(); } else if d0 == 0x70 { data[2] = 0x70; go!(); }
    else { with_fixed_disc_or_other!(data, 2, { go!(); }); }
    kani::cover!(any_ok, "w:some_decode_succeeds");
    kani::cover!(!any_ok && n > 3, "w:some_decode_fails");
    core::mem::forget(out);
}}
