//! C33 — spilled rows round-trip through the spill format (src/sql/row_serde.rs).
use smallvec::SmallVec;
use std::borrow::Cow;
use turdb::sql::row_serde::RowSerde;
use turdb::types::Value;

type Out = SmallVec<[Value<'static>; 16]>;

/// Discriminant bytes of the spill format, from the module documentation of row_serde.rs (the module's own
/// constants are private). Fixed-width variants only.
const FIXED_DISC: [u8; 20] = [0x01, 0x10, 0x12, 0x13, 0x14, 0x15, 0x16, 0x18, 0x19, 0x33, 0x34, 0x40, 0x41, 0x42, 0x43, 0x63, 0x80, 0x81, 0x82, 0x83];

/// Case split on the discriminant byte at `idx`, writing the constant back so that symbolic execution sees a
/// concrete discriminant and does not unfold the heap-allocating arms (text/blob/vector) of the decoder with
/// symbolic lengths. Exhaustive: the final else asserts that no other discriminant was written by the encoder.
macro_rules! with_disc {
    ($buf:expr, $idx:expr, [$($d:expr),+], $body:block) => {{
        let d0 = $buf[$idx];
        $( if d0 == $d { $buf[$idx] = $d; $body } else )+
        { assert!(false, "role=unexpected_discriminant"); }
    }};
}
macro_rules! with_fixed_disc {
    ($buf:expr, $idx:expr, $body:block) => {
        with_disc!($buf, $idx, [0x01u8, 0x10u8, 0x12u8, 0x13u8, 0x14u8, 0x15u8, 0x16u8, 0x18u8, 0x19u8, 0x33u8, 0x34u8, 0x40u8, 0x41u8, 0x42u8, 0x43u8, 0x63u8, 0x80u8, 0x81u8, 0x82u8, 0x83u8], $body)
    };
}

/// Bitwise equality including the variant (the property says "equal row of the same types").
/// NaN payloads: any NaN must come back as a NaN.
fn feq(a: f64, b: f64) -> bool { (a.is_nan() && b.is_nan()) || a.to_bits() == b.to_bits() }
fn same(a: &Value, b: &Value) -> bool {
    match (a, b) {
        (Value::Null, Value::Null) => true,
        (Value::Int(x), Value::Int(y)) => x == y,
        (Value::Float(x), Value::Float(y)) => feq(*x, *y),
        (Value::Uuid(x), Value::Uuid(y)) => x == y,
        (Value::MacAddr(x), Value::MacAddr(y)) => x == y,
        (Value::Inet4(x), Value::Inet4(y)) => x == y,
        (Value::Inet6(x), Value::Inet6(y)) => x == y,
        (Value::TimestampTz { micros: a, offset_secs: b }, Value::TimestampTz { micros: c, offset_secs: d }) => a == c && b == d,
        (Value::Interval { micros: a, days: b, months: c }, Value::Interval { micros: d, days: e, months: f }) => a == d && b == e && c == f,
        (Value::Point { x: a, y: b }, Value::Point { x: c, y: d }) => a.to_bits() == c.to_bits() && b.to_bits() == d.to_bits(),
        (Value::GeoBox { low: a, high: b }, Value::GeoBox { low: c, high: d }) =>
            a.0.to_bits() == c.0.to_bits() && a.1.to_bits() == c.1.to_bits() && b.0.to_bits() == d.0.to_bits() && b.1.to_bits() == d.1.to_bits(),
        (Value::Circle { center: a, radius: r }, Value::Circle { center: c, radius: s }) =>
            a.0.to_bits() == c.0.to_bits() && a.1.to_bits() == c.1.to_bits() && r.to_bits() == s.to_bits(),
        (Value::Enum { type_id: a, ordinal: b }, Value::Enum { type_id: c, ordinal: d }) => a == c && b == d,
        (Value::Decimal { digits: a, scale: b }, Value::Decimal { digits: c, scale: d }) => a == c && b == d,
        _ => false,
    }
}
/// Same numeric value, ignoring the Int/Float variant (used to separate "value lost" from "type lost").
fn same_value_loose(a: &Value, b: &Value) -> bool {
    match (a, b) {
        (Value::Float(x), Value::Int(y)) => *x == *y as f64,
        _ => same(a, b),
    }
}

fn any_scalar() -> Value<'static> {
    let k: u8 = kani::any();
    kani::assume(k < 14);
    match k {
        0 => Value::Null,
        1 => Value::Int(kani::any()),
        2 => Value::Float(kani::any()),
        3 => Value::Uuid(kani::any()),
        4 => Value::MacAddr(kani::any()),
        5 => Value::Inet4(kani::any()),
        6 => Value::Inet6(kani::any()),
        7 => Value::TimestampTz { micros: kani::any(), offset_secs: kani::any() },
        8 => Value::Interval { micros: kani::any(), days: kani::any(), months: kani::any() },
        9 => Value::Point { x: kani::any(), y: kani::any() },
        10 => Value::GeoBox { low: (kani::any(), kani::any()), high: (kani::any(), kani::any()) },
        11 => Value::Circle { center: (kani::any(), kani::any()), radius: kani::any() },
        12 => Value::Enum { type_id: kani::any(), ordinal: kani::any() },
        _ => Value::Decimal { digits: kani::any(), scale: kani::any() },
    }
}

/// One-column row round trip for a fixed-width value. `$discs` = the discriminants this group can produce (from the
/// documented format); the decoder input is a stack copy whose column count and discriminant are made concrete by an
/// exhaustive case split (heap bytes are not constant-propagated by CBMC, and a symbolic column count / discriminant
/// makes symbolic execution unfold the text/blob/vector arms with symbolic lengths).
macro_rules! scalar_rt {
    ($v:expr, [$($d:expr),+]) => {{
        let row = [$v];
        let mut buf: Vec<u8> = Vec::with_capacity(48);
        RowSerde::serialize_row_into(&row, &mut buf);
        assert!(buf.len() == RowSerde::row_size(&row), "role=row_size_equals_bytes_written");
        let mut arr = [0u8; 40];
        let n = buf.len();
        assert!(n <= 35, "role=scalar_row_fits");
        let mut i = 0; while i < 35 { if i < n { arr[i] = buf[i]; } i += 1; }
        assert!(arr[0] == 0 && arr[1] == 1, "role=column_count_field"); arr[0] = 0; arr[1] = 1;
        let mut out: Out = SmallVec::new();
        with_disc!(arr, 2, [$($d),+], {
            let mut off = 0usize;
            let r = RowSerde::deserialize_row_into(&arr[..n], &mut off, &mut out);
            assert!(r.is_ok(), "role=deserialize_ok");
            assert!(off == n, "role=offset_advances_by_row_size");
            assert!(out.len() == 1, "role=column_count");
            assert!(same_value_loose(&row[0], &out[0]), "role=value_equal");
            assert!(same(&row[0], &out[0]), "role=variant_and_bits_equal");
            core::mem::forget(r);
        });
        core::mem::forget((buf, out, row));
    }};
}

// @vt prop=C33 tier=quick bound="one-column rows: Null and every i64" outside="multi-column rows (c33_two_rows_sequence)" timeout=600
vt_proof! { unwind = 37; fn c33_rt_null_int() {
    let k: bool = kani::any();
    let v: Value<'static> = if k { Value::Null } else { Value::Int(kani::any()) };
    kani::cover!(matches!(v, Value::Int(i64::MIN)), "w:int_min");
    kani::cover!(matches!(v, Value::Int(0)), "w:int_zero");
    scalar_rt!(v, [0x01u8, 0x12u8, 0x14u8, 0x16u8]);
}}

// @vt prop=C33 tier=quick bound="one-column rows: every f64 bit pattern" outside="multi-column rows" timeout=600
vt_proof! { unwind = 37; fn c33_rt_float() {
    let f: f64 = kani::any();
    kani::cover!(f < 0.0, "w:negative_float");
    kani::cover!(f.to_bits() == 0x8000_0000_0000_0000, "w:negative_zero");
    scalar_rt!(Value::Float(f), [0x10u8, 0x13u8, 0x14u8, 0x15u8, 0x18u8, 0x19u8]);
}}

// @vt prop=C33 tier=quick bound="one-column rows: Uuid, MacAddr, Inet4, Inet6 with arbitrary bytes" outside="multi-column rows" timeout=600
vt_proof! { unwind = 37; fn c33_rt_addr() {
    let k: u8 = kani::any(); kani::assume(k < 4);
    let v: Value<'static> = match k { 0 => Value::Uuid(kani::any()), 1 => Value::MacAddr(kani::any()), 2 => Value::Inet4(kani::any()), _ => Value::Inet6(kani::any()) };
    kani::cover!(k == 1, "w:macaddr");
    scalar_rt!(v, [0x40u8, 0x41u8, 0x42u8, 0x43u8]);
}}

// @vt prop=C33 tier=quick bound="one-column rows: TimestampTz, Interval, Enum, Decimal with arbitrary fields (i128 digits)" outside="multi-column rows" timeout=600
vt_proof! { unwind = 37; fn c33_rt_temporal_enum_decimal() {
    let k: u8 = kani::any(); kani::assume(k < 4);
    let v: Value<'static> = match k {
        0 => Value::TimestampTz { micros: kani::any(), offset_secs: kani::any() },
        1 => Value::Interval { micros: kani::any(), days: kani::any(), months: kani::any() },
        2 => Value::Enum { type_id: kani::any(), ordinal: kani::any() },
        _ => Value::Decimal { digits: kani::any(), scale: kani::any() } };
    kani::cover!(k == 3, "w:decimal");
    scalar_rt!(v, [0x33u8, 0x34u8, 0x63u8, 0x83u8]);
}}

// @vt prop=C33 tier=quick bound="one-column rows: Point, GeoBox, Circle with arbitrary f64 bit patterns" outside="multi-column rows" timeout=600
vt_proof! { unwind = 37; fn c33_rt_geo() {
    let k: u8 = kani::any(); kani::assume(k < 3);
    let v: Value<'static> = match k {
        0 => Value::Point { x: kani::any(), y: kani::any() },
        1 => Value::GeoBox { low: (kani::any(), kani::any()), high: (kani::any(), kani::any()) },
        _ => Value::Circle { center: (kani::any(), kani::any()), radius: kani::any() } };
    kani::cover!(k == 1, "w:geobox");
    scalar_rt!(v, [0x80u8, 0x81u8, 0x82u8]);
}}

// @vt prop=C33 tier=quick bound="two rows in one buffer: [Int|Float|Null any payload] then [any fixed-width scalar, Null]" outside="longer sequences; more than 2 columns" timeout=900
vt_proof! { unwind = 34; fn c33_two_rows_sequence() {
    let a: Value<'static> = { let k: u8 = kani::any(); kani::assume(k < 3); match k { 0 => Value::Null, 1 => Value::Int(kani::any()), _ => Value::Float(kani::any()) } };
    kani::assume(!matches!(a, Value::Float(f) if f == 0.0)); // known finding float_zero_type is decided in c33_scalar_roundtrip
    let b = any_scalar();
    kani::assume(!matches!(b, Value::Float(f) if f == 0.0));
    let row1 = [a];
    let row2 = [b, Value::Null];
    let mut buf: Vec<u8> = Vec::with_capacity(96);
    RowSerde::serialize_row_into(&row1, &mut buf);
    let l1 = buf.len();
    RowSerde::serialize_row_into(&row2, &mut buf);
    assert!(l1 == RowSerde::row_size(&row1) && buf.len() == l1 + RowSerde::row_size(&row2), "role=sizes_add_up");
    let mut out: Out = SmallVec::new();
    let mut off = 0usize;
    assert!(RowSerde::deserialize_row_into(&buf, &mut off, &mut out).is_ok(), "role=first_row_ok");
    assert!(off == l1 && out.len() == 1 && same(&row1[0], &out[0]), "role=first_row_in_order");
    assert!(RowSerde::deserialize_row_into(&buf, &mut off, &mut out).is_ok(), "role=second_row_ok");
    assert!(off == buf.len() && out.len() == 2, "role=second_row_consumed");
    assert!(same(&row2[0], &out[0]) && same(&row2[1], &out[1]), "role=second_row_in_order");
    // nothing left: a third read must fail, not wrap around or panic
    assert!(RowSerde::deserialize_row_into(&buf, &mut off, &mut out).is_err(), "role=end_of_buffer_is_error");
    kani::cover!(l1 == 3, "w:first_row_one_byte_value");
    core::mem::forget((buf, out, row1, row2));
}}

fn bytes_variant(k: u8, b: Vec<u8>) -> Value<'static> {
    match k { 0 => Value::Blob(Cow::Owned(b)), 1 => Value::Jsonb(Cow::Owned(b)), _ => Value::ToastPointer(Cow::Owned(b)) }
}
fn bytes_of<'a>(v: &'a Value<'static>) -> Option<(u8, &'a [u8])> {
    match v { Value::Blob(b) => Some((0, &b[..])), Value::Jsonb(b) => Some((1, &b[..])), Value::ToastPointer(b) => Some((2, &b[..])), Value::Text(s) => Some((3, s.as_bytes())), _ => None }
}

// @vt prop=C33 tier=quick bound="one-column rows holding Blob / Jsonb / ToastPointer / Text of length 0..=3 (all byte values; text ASCII)" outside="payloads longer than 3 bytes" timeout=900
vt_proof! { unwind = 34; fn c33_bytes_roundtrip() {
    let data: [u8; 3] = kani::any();
    let k: u8 = kani::any(); kani::assume(k < 4);
    let n: usize = kani::any(); kani::assume(n <= 3);
    // concrete length per branch: symbolic allocation sizes are a CBMC blow-up, the case split is exhaustive
    if n == 0 { bytes_rt(k, &data, 0) } else if n == 1 { bytes_rt(k, &data, 1) } else if n == 2 { bytes_rt(k, &data, 2) } else { bytes_rt(k, &data, 3) }
}}
fn bytes_rt(k: u8, data: &[u8; 3], n: usize) {
    let v: Value<'static> = if k == 3 {
        kani::assume(data[0] < 0x80 && data[1] < 0x80 && data[2] < 0x80);
        Value::Text(Cow::Owned(unsafe { String::from_utf8_unchecked(data[..n].to_vec()) }))
    } else { bytes_variant(k, data[..n].to_vec()) };
    let row = [v];
    let mut buf: Vec<u8> = Vec::with_capacity(32);
    RowSerde::serialize_row_into(&row, &mut buf);
    assert!(buf.len() == RowSerde::row_size(&row), "role=row_size_equals_bytes_written");
    assert!(buf.len() == 2 + 1 + 4 + n, "role=bytes_layout_len");
    let mut out: Out = SmallVec::new();
    let mut off = 0usize;
    assert!(RowSerde::deserialize_row_into(&buf, &mut off, &mut out).is_ok(), "role=deserialize_ok");
    assert!(off == buf.len() && out.len() == 1, "role=offset_advances_by_row_size");
    match bytes_of(&out[0]) {
        Some((kk, b)) => {
            assert!(kk == k, "role=variant_and_bits_equal");
            assert!(b.len() == n, "role=bytes_len_equal");
            let mut i = 0; while i < n { assert!(b[i] == data[i], "role=bytes_equal"); i += 1; }
        }
        None => assert!(false, "role=variant_and_bits_equal"),
    }
    kani::cover!(n == 3 && k == 2, "w:toast_pointer_three_bytes");
    core::mem::forget((buf, out, row));
}

// @vt prop=C33 tier=quick bound="one-column rows holding a Vector of 0..=2 f32 (all bit patterns)" outside="vectors longer than 2" timeout=900
vt_proof! { unwind = 34; fn c33_vector_roundtrip() {
    let data: [f32; 2] = kani::any();
    let n: usize = kani::any(); kani::assume(n <= 2);
    if n == 0 { vec_rt(&data, 0) } else if n == 1 { vec_rt(&data, 1) } else { vec_rt(&data, 2) }
}}
fn vec_rt(data: &[f32; 2], n: usize) {
    let row = [Value::Vector(Cow::Owned(data[..n].to_vec()))];
    let mut buf: Vec<u8> = Vec::with_capacity(32);
    RowSerde::serialize_row_into(&row, &mut buf);
    assert!(buf.len() == RowSerde::row_size(&row), "role=row_size_equals_bytes_written");
    let mut out: Out = SmallVec::new();
    let mut off = 0usize;
    assert!(RowSerde::deserialize_row_into(&buf, &mut off, &mut out).is_ok(), "role=deserialize_ok");
    assert!(off == buf.len() && out.len() == 1, "role=offset_advances_by_row_size");
    match &out[0] {
        Value::Vector(v) => { assert!(v.len() == n, "role=vector_len_equal"); let mut i = 0; while i < n { assert!(v[i].to_bits() == data[i].to_bits(), "role=vector_bits_equal"); i += 1; } }
        _ => assert!(false, "role=variant_and_bits_equal"),
    }
    kani::cover!(n == 2, "w:two_components");
    core::mem::forget((buf, out, row));
}

// @vt prop=C33 tier=quick bound="arbitrary input of 0..=14 bytes whose column count field is <= 2, arbitrary start offset <= len" outside="longer inputs; column counts > 2 (SmallVec::reserve with a symbolic size)" timeout=900
vt_proof! { unwind = 18; fn c33_deserialize_arbitrary_bytes_no_panic() {
    let data: [u8; 14] = kani::any();
    let n: usize = kani::any(); kani::assume(n <= 14);
    kani::assume(data[0] == 0 && data[1] <= 2);
    // length fields of heap variants: keep allocations small (stated bound)
    let mut out: Out = SmallVec::new();
    let mut off = 0usize;
    let r = RowSerde::deserialize_row_into(&data[..n], &mut off, &mut out);
    assert!(off <= n, "role=offset_within_input");
    if r.is_ok() { assert!(out.len() == data[1] as usize, "role=ok_means_all_columns"); }
    kani::cover!(r.is_ok() && data[1] == 2, "w:two_columns_decoded");
    kani::cover!(r.is_err() && n > 3, "w:error_path");
    core::mem::forget(out);
    core::mem::forget(r);
}}
