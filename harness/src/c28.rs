//! C28 / C29 — leaf-page operations as an ordered map, one inductive step from a valid page (small-page build).
//!
//! Pre-state: an arbitrary valid leaf of a concrete *shape* (cell count, key/value lengths, free-space
//! position: chosen from a menu per harness) with symbolic key and value bytes. One real operation with
//! symbolic argument bytes. Post-state, checked on the raw page bytes:
//!   C29 (structure): header fields consistent, every slot points at one of the known cell positions with the
//!        right key length and zero-padded prefix, keys strictly increasing in slot order, free_end below every
//!        cell, cell bytes intact;
//!   C28 (ordered map): the set of entries reachable through the slots is exactly the reference result
//!        (old ∪ {new}, old \ {deleted}, …) — together with strict ordering this pins the slot sequence; an
//!        operation that fails leaves header, slots and cells unchanged.
//! Because the pre-state is *any* valid page of that shape, a passing step covers histories of any length that
//! reach such a page. The oracle never reads the page at a symbolic offset (that is what made a first version
//! run out of memory): it decodes each slot's offset against the known concrete cell positions.
use crate::pg::{self, Ent, CONTENT, SLOT};
use core::cmp::Ordering;
use turdb::btree::{LeafNode, LeafNodeMut, SearchResult};
use turdb::storage::PAGE_SIZE;

pub const NMAX: usize = 6;

/// Known cells of a page: entry + concrete offset.
#[derive(Clone, Copy)]
pub struct Known {
    pub e: [Ent; NMAX],
    pub off: [usize; NMAX],
    pub m: usize,
}
impl Known {
    pub fn new() -> Known { Known { e: [Ent::ZERO; NMAX], off: [0; NMAX], m: 0 } }
    pub fn push(&mut self, e: Ent, off: usize) { self.e[self.m] = e; self.off[self.m] = off; self.m += 1; }
}

/// Builds a valid leaf of shape (kl, vl) with symbolic bytes; returns the known cells and free_end.
pub fn any_leaf<const N: usize>(page: &mut [u8; PAGE_SIZE], kl: [usize; N], vl: [usize; N], top: usize, slack: usize, next: u32, frag: u8) -> (Known, usize) {
    let mut k = Known::new();
    let mut ents = [Ent::ZERO; NMAX];
    let mut off = top;
    let mut i = 0;
    while i < N { ents[i] = Ent::any(kl[i], vl[i]); off -= ents[i].cell_size(); k.push(ents[i], off); i += 1; }
    kani::assume(pg::sorted(&ents, N));
    let fe = pg::put_leaf(page, &ents, N, top, slack, next, frag);
    (k, fe)
}

fn sel(k: &Known, w: usize) -> Ent {
    let mut out = k.e[0];
    let mut i = 1;
    while i < NMAX { if i < k.m && w == i { out = k.e[i]; } i += 1; }
    out
}

/// Checks cell bytes at their concrete positions.
pub fn cells_intact(p: &[u8; PAGE_SIZE], k: &Known) -> bool {
    let mut ok = true;
    let mut c = 0;
    while c < NMAX {
        if c < k.m {
            let e = &k.e[c]; let o = k.off[c];
            let mut j = 0; while j < e.kl { if p[o + j] != e.k[j] { ok = false; } j += 1; }
            if p[o + e.kl] != e.vl as u8 { ok = false; }
            let mut j = 0; while j < e.vl { if p[o + e.kl + 1 + j] != e.v[j] { ok = false; } j += 1; }
        }
        c += 1;
    }
    ok
}

/// Decodes the slot array against the known cells. Returns (count, which[i]) or a violation code.
/// Codes: 1 type, 2 count, 3 free_start, 4 free_end range, 5 free_end above a referenced cell, 6 slot points at no
/// known cell, 7 key_len mismatch, 8 prefix mismatch, 9 keys not strictly increasing.
pub fn decode_leaf(p: &[u8; PAGE_SIZE], k: &Known, expect_n: usize) -> (u8, [usize; NMAX]) {
    let mut which = [0usize; NMAX];
    if p[0] != pg::T_LEAF { return (1, which); }
    let n = pg::get16(p, 2) as usize;
    if n != expect_n { return (2, which); }
    let fs = pg::get16(p, 4) as usize;
    let fe = pg::get16(p, 6) as usize;
    if fs != CONTENT + n * SLOT { return (3, which); }
    if fs > fe || fe > PAGE_SIZE { return (4, which); }
    let mut code = 0u8;
    let mut i = 0;
    while i < NMAX {
        if i < expect_n {
            let so = CONTENT + i * SLOT;
            let off = pg::get16(p, so + 4) as usize;
            let kl = pg::get16(p, so + 6) as usize;
            let mut w = NMAX;
            let mut c = 0;
            while c < NMAX { if c < k.m && off == k.off[c] { w = c; } c += 1; }
            if w == NMAX { if code == 0 { code = 6; } }
            else {
                which[i] = w;
                let e = sel(k, w);
                if off < fe && code == 0 { code = 5; }
                if kl != e.kl && code == 0 { code = 7; }
                let mut j = 0;
                while j < 4 { let want = if j < e.kl { e.k[j] } else { 0 }; if p[so + j] != want && code == 0 { code = 8; } j += 1; }
                if i > 0 {
                    let prev = sel(k, which[i - 1]);
                    if !pg::lex_lt(prev.key(), e.key()) && code == 0 { code = 9; }
                }
            }
        }
        i += 1;
    }
    (code, which)
}

fn contains(which: &[usize; NMAX], n: usize, c: usize) -> bool {
    let mut f = false;
    let mut i = 0; while i < NMAX { if i < n && which[i] == c { f = true; } i += 1; }
    f
}
fn key_present(k: &Known, key: &[u8]) -> bool {
    let mut f = false;
    let mut i = 0; while i < NMAX { if i < k.m && crate::common::lex_cmp(k.e[i].key(), key) == Ordering::Equal { f = true; } i += 1; }
    f
}
/// header + slot area snapshot (everything the logical content depends on besides the cells); rows of 8 bytes so
/// that every harness loop stays below the unwinding bound
fn head_snapshot(p: &[u8; PAGE_SIZE], n: usize) -> [[u8; 8]; 3 + NMAX] {
    let mut s = [[0u8; 8]; 3 + NMAX];
    let mut r = 0;
    while r < 3 + NMAX { if r < 3 + n { let mut j = 0; while j < 8 { s[r][j] = p[r * 8 + j]; j += 1; } } r += 1; }
    s
}
fn snap_eq(a: &[[u8; 8]; 3 + NMAX], b: &[[u8; 8]; 3 + NMAX]) -> bool {
    let mut ok = true;
    let mut r = 0;
    while r < 3 + NMAX { let mut j = 0; while j < 8 { if a[r][j] != b[r][j] { ok = false; } j += 1; } r += 1; }
    ok
}

macro_rules! assert_leaf_ok {
    ($code:expr) => {{
        let c = $code;
        assert!(c != 1 && c != 2, "role=c29_type_and_cell_count");
        assert!(c != 3 && c != 4 && c != 5, "role=c29_free_space_bounds");
        assert!(c != 6 && c != 7 && c != 8, "role=c29_slots_describe_their_cells");
        assert!(c != 9, "role=c29_keys_strictly_increasing");
    }};
}

#[derive(Clone, Copy, PartialEq)]
pub enum InsKind { At, AtEnd, CellFindSpec }

/// One insert from ANY valid leaf of the shape, with the new key constrained to sort at slot position `c`:
///  * At:           `insert_cell_at(key, value, c)`  (BTree::insert_if_not_exists after its find_key)
///  * AtEnd:        `insert_at_end(key, value)`      (append path; c must be N)
///  * CellFindSpec: `insert_cell(key, value)` with `find_key_simd` replaced by its specification, which answers
///                  NotFound(c) — see common::stub_find_key_simd; `dup=true` makes it answer Found(c) for a key equal
///                  to entry c (the duplicate must be refused).
fn step_insert<const N: usize>(kind: InsKind, kl: [usize; N], vl: [usize; N], nk: usize, nv: usize, c: usize, dup: bool, top: usize, slack: usize) -> bool {
    let mut page = [0u8; PAGE_SIZE];
    let (mut k, fe) = any_leaf::<N>(&mut page, kl, vl, top, slack, 0, 0);
    { let (code, _) = decode_leaf(&page, &k, N); assert!(code == 0, "role=prestate_is_valid"); }
    let before = head_snapshot(&page, N);
    let e = Ent::any(nk, nv);
    let free = fe - (CONTENT + N * SLOT);
    let fits = free >= e.cell_size() + SLOT;
    if dup { kani::assume(crate::common::lex_cmp(k.e[c].key(), e.key()) == Ordering::Equal); }
    else {
        if c > 0 { kani::assume(pg::lex_lt(k.e[c - 1].key(), e.key())); }
        if c < N { kani::assume(pg::lex_lt(e.key(), k.e[c].key())); }
    }
    unsafe { crate::common::FIND_FOUND = dup; crate::common::FIND_POS = c; }
    let ok = {
        let mut leaf = match LeafNodeMut::from_page(&mut page) { Ok(l) => l, Err(_) => { assert!(false, "role=from_page_ok"); return false; } };
        let r = core::mem::ManuallyDrop::new(match kind {
            InsKind::At => leaf.insert_cell_at(e.key(), e.val(), c),
            InsKind::AtEnd => leaf.insert_at_end(e.key(), e.val()),
            InsKind::CellFindSpec => leaf.insert_cell(e.key(), e.val()),
        });
        r.is_ok()
    };
    if ok {
        assert!(fits, "role=insert_succeeds_only_if_it_fits");
        assert!(!dup, "role=duplicate_key_rejected");
        k.push(e, fe - e.cell_size());
        let (code, which) = decode_leaf(&page, &k, N + 1);
        assert_leaf_ok!(code);
        assert!(cells_intact(&page, &k), "role=c28_cell_bytes_intact_after_insert");
        let mut x = 0; while x <= N { assert!(contains(&which, N + 1, x), "role=c28_insert_keeps_every_entry_and_adds_the_new_one"); x += 1; }
        assert!(pg::get16(&page, 6) as usize == fe - e.cell_size(), "role=c29_free_end_moves_by_cell_size");
    } else {
        assert!(!fits || dup, "role=insert_fails_only_when_full_or_duplicate");
        let after = head_snapshot(&page, N);
        assert!(snap_eq(&after, &before), "role=failed_insert_leaves_header_and_slots_unchanged");
        assert!(cells_intact(&page, &k), "role=failed_insert_leaves_cells_unchanged");
    }
    ok
}

/// delete_cell(i) from ANY valid leaf of the shape.
fn step_delete<const N: usize>(kl: [usize; N], vl: [usize; N], i: usize, frag: u8) {
    let mut page = [0u8; PAGE_SIZE];
    let (k, fe) = any_leaf::<N>(&mut page, kl, vl, PAGE_SIZE, 0, 9, frag);
    let r = {
        let mut leaf = match LeafNodeMut::from_page(&mut page) { Ok(l) => l, Err(_) => { assert!(false, "role=from_page_ok"); return; } };
        core::mem::ManuallyDrop::new(leaf.delete_cell(i))
    };
    if i >= N { assert!(r.is_err(), "role=delete_out_of_range_is_error"); let (c, _) = decode_leaf(&page, &k, N); assert!(c == 0, "role=failed_delete_leaves_page_valid"); return; }
    assert!(r.is_ok(), "role=delete_in_range_succeeds");
    let (code, which) = decode_leaf(&page, &k, N - 1);
    assert_leaf_ok!(code);
    assert!(cells_intact(&page, &k), "role=c28_other_cells_intact_after_delete");
    let mut c = 0;
    while c < N {
        if c == i { assert!(!contains(&which, N - 1, c), "role=c28_deleted_entry_is_gone"); }
        else { assert!(contains(&which, N - 1, c), "role=c28_delete_keeps_every_other_entry"); }
        c += 1;
    }
    assert!(pg::get16(&page, 6) as usize <= fe || pg::get16(&page, 6) as usize <= PAGE_SIZE, "role=c29_free_end_sane_after_delete");
    let leaf = core::mem::ManuallyDrop::new(LeafNode::from_page(&page));
    if let Ok(l) = &*leaf { assert!(l.next_leaf() == 9, "role=c29_delete_keeps_leaf_chain_pointer"); }
    kani::cover!(true, "w:delete_reached_end");
}

/// update_cell_value_in_place(i, v) / update_cell_value_shrink(i, v) on ANY valid leaf of the shape.
fn step_update<const N: usize>(kl: [usize; N], vl: [usize; N], i: usize, new_vl: usize) {
    let mut page = [0u8; PAGE_SIZE];
    let (mut k, _fe) = any_leaf::<N>(&mut page, kl, vl, PAGE_SIZE, 0, 0, 0);
    let nv: [u8; 4] = kani::any();
    let old_vl = vl[i];
    let r = {
        let mut leaf = match LeafNodeMut::from_page(&mut page) { Ok(l) => l, Err(_) => { assert!(false, "role=from_page_ok"); return; } };
        core::mem::ManuallyDrop::new(if new_vl == old_vl { leaf.update_cell_value_in_place(i, &nv[..new_vl]) } else { leaf.update_cell_value_shrink(i, &nv[..new_vl]) })
    };
    assert!(r.is_ok() == (new_vl <= old_vl), "role=update_accepts_exactly_equal_or_smaller_values");
    if r.is_ok() { k.e[i].v = nv; k.e[i].vl = new_vl; }
    let (code, which) = decode_leaf(&page, &k, N);
    assert_leaf_ok!(code);
    assert!(cells_intact(&page, &k), "role=c28_update_changes_exactly_that_value");
    let mut c = 0; while c < N { assert!(contains(&which, N, c), "role=c28_update_keeps_every_entry"); c += 1; }
    // read back through the real accessor, as BTree::get does
    let leaf = core::mem::ManuallyDrop::new(LeafNode::from_page(&page));
    if let Ok(l) = &*leaf {
        let v = core::mem::ManuallyDrop::new(l.value_at(i));
        match &*v { Ok(v) => assert!(crate::common::lex_cmp(v, k.e[i].val()) == Ordering::Equal, "role=c28_get_returns_last_written_value"), Err(_) => assert!(false, "role=value_at_ok") }
    }
    kani::cover!(r.is_ok(), "w:update_applied");
}

// ---- shapes: (key lengths) / (value lengths); keys shorter than, equal to and longer than the 4-byte slot prefix
// @vt prop=C28,C29 tier=quick feat=sp fs=600 bound="insert_cell_at(pos) into ANY valid leaf of shape keys(2,5,3)/values(1,2,0) (arbitrary bytes), new key 4 / value 2 bytes sorting at each position 0..=3" outside="other shapes; values > 240 bytes" timeout=1800 mem=16
vt_proof_pg! { unwind = 10; fn c28_leaf_insert_at_3cells() {
    let r0 = step_insert::<3>(InsKind::At, [2, 5, 3], [1, 2, 0], 4, 2, 0, false, PAGE_SIZE, 0); let r1 = step_insert::<3>(InsKind::At, [2, 5, 3], [1, 2, 0], 4, 2, 1, false, PAGE_SIZE, 0);
    let r2 = step_insert::<3>(InsKind::At, [2, 5, 3], [1, 2, 0], 4, 2, 2, false, PAGE_SIZE, 0); let r3 = step_insert::<3>(InsKind::At, [2, 5, 3], [1, 2, 0], 4, 2, 3, false, PAGE_SIZE, 0);
    kani::cover!(r0, "w:insert_succeeds");
}}
// @vt prop=C28,C29 tier=quick feat=sp fs=600 bound="insert_cell_at: shapes keys(4,4)/values(1,1) with 3 dead bytes below the cells, new key 2 / value 0 at positions 0..=2; empty leaf; exact fit and one byte short" outside="other shapes" timeout=1800 mem=16
vt_proof_pg! { unwind = 10; fn c28_leaf_insert_at_small_and_full() {
    let r0 = step_insert::<2>(InsKind::At, [4, 4], [1, 1], 2, 0, 0, false, PAGE_SIZE, 3); let r1 = step_insert::<2>(InsKind::At, [4, 4], [1, 1], 2, 0, 1, false, PAGE_SIZE, 3);
    let r2 = step_insert::<2>(InsKind::At, [4, 4], [1, 1], 2, 0, 2, false, PAGE_SIZE, 3);
    let r3 = step_insert::<0>(InsKind::At, [], [], 5, 1, 0, false, PAGE_SIZE, 0);
    // free = fe - (24 + 2*8); cells take 2*5 = 10 bytes below `top`; need = 7 + 8 = 15
    let r4 = step_insert::<2>(InsKind::At, [3, 3], [1, 1], 4, 2, 1, false, 24 + 16 + 10 + 15, 0);
    let r5 = step_insert::<2>(InsKind::At, [3, 3], [1, 1], 4, 2, 1, false, 24 + 16 + 10 + 14, 0);
    kani::cover!(r0, "w:insert_succeeds"); kani::cover!(!r5, "w:insert_refused");
}}
// @vt prop=C28,C29 tier=quick feat=sp fs=600 bound="insert_cell (find_key replaced by its specification) into ANY valid leaf of shape keys(2,5,3)/values(1,2,0), new key 4 / value 2 at positions 0..=3, and a duplicate of entry 1 (must be refused); exact fit / one byte short" outside="other shapes; the real find_key_simd (decided against the same specification under C30)" timeout=1800 mem=16
vt_proof_pg_findspec! { unwind = 10; fn c28_leaf_insert_cell_findspec() {
    let r0 = step_insert::<3>(InsKind::CellFindSpec, [2, 5, 3], [1, 2, 0], 4, 2, 0, false, PAGE_SIZE, 0); let r1 = step_insert::<3>(InsKind::CellFindSpec, [2, 5, 3], [1, 2, 0], 4, 2, 2, false, PAGE_SIZE, 0);
    let r2 = step_insert::<3>(InsKind::CellFindSpec, [2, 5, 3], [1, 2, 0], 4, 2, 3, false, PAGE_SIZE, 0);
    let r3 = step_insert::<3>(InsKind::CellFindSpec, [2, 5, 3], [1, 2, 0], 5, 2, 1, true, PAGE_SIZE, 0);
    let r4 = step_insert::<2>(InsKind::CellFindSpec, [3, 3], [1, 1], 4, 2, 1, false, 24 + 16 + 10 + 15, 0);
    let r5 = step_insert::<2>(InsKind::CellFindSpec, [3, 3], [1, 1], 4, 2, 1, false, 24 + 16 + 10 + 14, 0);
    kani::cover!(r0, "w:insert_succeeds"); kani::cover!(!r3, "w:insert_refused");
}}
// @vt prop=C28,C29 tier=quick feat=sp fs=600 bound="insert_at_end (append path) into ANY valid leaf of shape keys(2,5,3)/values(1,2,0), new greatest key 3 / value 2; also exact fit / one byte short" outside="other shapes" timeout=1800 mem=16
vt_proof_pg! { unwind = 10; fn c28_leaf_append() {
    let r0 = step_insert::<3>(InsKind::AtEnd, [2, 5, 3], [1, 2, 0], 3, 2, 3, false, PAGE_SIZE, 0);
    let r1 = step_insert::<1>(InsKind::AtEnd, [4], [1], 3, 2, 1, false, 24 + 8 + 6 + 14, 0);
    let r2 = step_insert::<1>(InsKind::AtEnd, [4], [1], 3, 2, 1, false, 24 + 8 + 6 + 13, 0);
    kani::cover!(r0, "w:insert_succeeds"); kani::cover!(!r2, "w:insert_refused");
}}
// @vt prop=C28,C29 tier=quick feat=sp fs=600 bound="delete_cell(i) for i in 0..=3 on ANY valid leaf of shape keys(2,5,3)/values(1,2,0), incl. out-of-range index; fragmentation counter 0 and 100 (below the compaction threshold of the 512-byte build)" outside="other shapes; compaction (reachable only in the small-page build: the u8 counter cannot exceed (16384-24)/4)" timeout=1800 mem=16
vt_proof_pg! { unwind = 10; fn c28_leaf_delete() {
    step_delete::<3>([2, 5, 3], [1, 2, 0], 0, 0); step_delete::<3>([2, 5, 3], [1, 2, 0], 1, 100);
    step_delete::<3>([2, 5, 3], [1, 2, 0], 2, 0); step_delete::<3>([2, 5, 3], [1, 2, 0], 3, 0);
    step_delete::<1>([4], [2], 0, 0);
}}
// @vt prop=C28,C29 tier=quick feat=sp fs=600 bound="update_cell_value_in_place / _shrink on ANY valid leaf of shape keys(2,5,3)/values(3,2,4): same size, shrink to 0..3, and growing (must be refused)" outside="other shapes; values > 240 bytes (varint width change: c28_leaf_shrink_across_varint_width)" timeout=1800 mem=16
vt_proof_pg! { unwind = 10; fn c28_leaf_update() {
    step_update::<3>([2, 5, 3], [3, 2, 4], 0, 3); step_update::<3>([2, 5, 3], [3, 2, 4], 1, 1);
    step_update::<3>([2, 5, 3], [3, 2, 4], 2, 0); step_update::<3>([2, 5, 3], [3, 2, 4], 1, 3);
}}

// @vt prop=C28,C29 tier=quick feat=sp fs=600 bound="update_cell_value_shrink across the varint width boundary: a leaf with one cell whose value is 241 bytes (2-byte length varint) shrunk to 240 / 100 / 0 bytes (1-byte varint); first, second and last value bytes symbolic, the rest a concrete filler" outside="the 2287/2288 boundary (does not fit a 512-byte page); fully symbolic 240-byte values" timeout=1800 mem=16
vt_proof_pg! { unwind = 10; fn c28_leaf_shrink_across_varint_width() {
    let new_len: usize = kani::any();
    kani::assume(new_len == 240 || new_len == 100 || new_len == 0);
    if new_len == 240 { shrink_wide(240) } else if new_len == 100 { shrink_wide(100) } else { shrink_wide(0) }
}}
fn shrink_wide(new_len: usize) {
    let mut page = [0u8; PAGE_SIZE];
    let key: [u8; 2] = kani::any();
    let off = PAGE_SIZE - (2 + 2 + 241);
    page[0] = pg::T_LEAF; pg::put16(&mut page, 2, 1); pg::put16(&mut page, 4, (CONTENT + SLOT) as u16); pg::put16(&mut page, 6, off as u16);
    page[off] = key[0]; page[off + 1] = key[1];
    page[off + 2] = 241; page[off + 3] = 1; // varint(241) = [241, 1] per the documented format
    page[off + 4] = kani::any(); page[off + 4 + 240] = kani::any();
    page[CONTENT] = key[0]; page[CONTENT + 1] = key[1];
    pg::put16(&mut page, CONTENT + 4, off as u16); pg::put16(&mut page, CONTENT + 6, 2);
    let mut nv = [0x5Au8; 240];
    let (b0, b1, bl): (u8, u8, u8) = (kani::any(), kani::any(), kani::any());
    if new_len > 1 { nv[0] = b0; nv[1] = b1; nv[new_len - 1] = bl; }
    {
        let leaf = core::mem::ManuallyDrop::new(LeafNode::from_page(&page));
        if let Ok(l) = &*leaf { let v = core::mem::ManuallyDrop::new(l.value_at(0)); assert!(matches!(&*v, Ok(x) if x.len() == 241), "role=prestate_is_valid"); }
    }
    let ok = {
        let mut leaf = match LeafNodeMut::from_page(&mut page) { Ok(l) => l, Err(_) => { assert!(false, "role=from_page_ok"); return; } };
        let r = core::mem::ManuallyDrop::new(leaf.update_cell_value_shrink(0, &nv[..new_len]));
        r.is_ok()
    };
    assert!(ok, "role=shrink_accepted");
    let leaf = core::mem::ManuallyDrop::new(LeafNode::from_page(&page));
    if let Ok(l) = &*leaf {
        let k = core::mem::ManuallyDrop::new(l.key_at(0));
        assert!(matches!(&*k, Ok(x) if x.len() == 2 && x[0] == key[0] && x[1] == key[1]), "role=c28_shrink_keeps_key");
        let v = core::mem::ManuallyDrop::new(l.value_at(0));
        match &*v {
            Ok(x) => {
                assert!(x.len() == new_len, "role=c28_shrink_value_length");
                if new_len > 1 {
                    assert!(x[0] == nv[0] && x[1] == nv[1], "role=c28_get_returns_last_written_value");
                    assert!(x[new_len - 1] == nv[new_len - 1] && x[new_len / 2] == 0x5A, "role=c28_get_returns_last_written_value");
                }
            }
            Err(_) => assert!(false, "role=value_at_ok"),
        }
    }
    kani::cover!(new_len == 240, "w:one_byte_shorter_crosses_varint_width");
}

/// delete_cell(i) when the fragmentation counter crosses the compaction threshold (reachable only in the small-page
/// build: the u8 counter cannot exceed (16384-24)/4): `compact` re-packs the remaining cells from the end of the page
/// in slot order.
fn step_delete_compacting<const N: usize>(kl: [usize; N], vl: [usize; N], i: usize) {
    let mut page = [0u8; PAGE_SIZE];
    let (k, _fe) = any_leaf::<N>(&mut page, kl, vl, PAGE_SIZE - 40, 0, 9, 121);
    let r = {
        let mut leaf = match LeafNodeMut::from_page(&mut page) { Ok(l) => l, Err(_) => { assert!(false, "role=from_page_ok"); return; } };
        core::mem::ManuallyDrop::new(leaf.delete_cell(i))
    };
    assert!(r.is_ok(), "role=delete_in_range_succeeds");
    // expected layout after compaction: remaining entries, slot order, packed downwards from PAGE_SIZE
    let mut k2 = Known::new();
    let mut off = PAGE_SIZE;
    let mut c = 0;
    while c < N { if c != i { off -= k.e[c].cell_size(); k2.push(k.e[c], off); } c += 1; }
    let (code, which) = decode_leaf(&page, &k2, N - 1);
    assert_leaf_ok!(code);
    assert!(cells_intact(&page, &k2), "role=c28_compaction_keeps_cell_contents");
    let mut c = 0; while c < N - 1 { assert!(which[c] == c, "role=c28_compaction_keeps_slot_order"); c += 1; }
    assert!(pg::get16(&page, 6) as usize == off, "role=c29_compaction_reclaims_free_space");
    assert!(page[8] == 0, "role=c29_compaction_resets_fragmentation_counter");
    kani::cover!(true, "w:compaction_path_reached");
}

// @vt prop=C28,C29 tier=thorough feat=sp fs=600 bound="delete_cell(i), i in 0..=2, on ANY valid leaf of shape keys(2,5,3)/values(1,2,0) whose fragmentation counter is 121 (the delete crosses the small-page compaction threshold 122): compact() re-packs the page" outside="other shapes; the default 16 KiB build, where the u8 counter can never reach the threshold" timeout=3600 mem=24
vt_proof_pg! { unwind = 10; fn c28_leaf_delete_triggers_compaction() {
    step_delete_compacting::<3>([2, 5, 3], [1, 2, 0], 0); step_delete_compacting::<3>([2, 5, 3], [1, 2, 0], 1); step_delete_compacting::<3>([2, 5, 3], [1, 2, 0], 2);
}}

// @vt prop=C28,C29 tier=thorough feat=sp fs=600 bound="insert_cell_at into ANY valid leaf of shape keys(5,5,5)/values(1,1,1) (full 4-byte prefix ties possible), new key 5 / value 1 at each position 0..=3; insert_cell with find spec at positions 1 and 3" outside="other shapes" timeout=3600 mem=24
vt_proof_pg_findspec! { unwind = 10; fn c28_leaf_insert_long_keys() {
    let r0 = step_insert::<3>(InsKind::At, [5, 5, 5], [1, 1, 1], 5, 1, 0, false, PAGE_SIZE, 0); let _r1 = step_insert::<3>(InsKind::At, [5, 5, 5], [1, 1, 1], 5, 1, 2, false, PAGE_SIZE, 0);
    let _r2 = step_insert::<3>(InsKind::CellFindSpec, [5, 5, 5], [1, 1, 1], 5, 1, 1, false, PAGE_SIZE, 0); let _r3 = step_insert::<3>(InsKind::CellFindSpec, [5, 5, 5], [1, 1, 1], 5, 1, 3, false, PAGE_SIZE, 0);
    kani::cover!(r0, "w:insert_succeeds");
}}
