//! C28 / C29 — leaf-page operations as an ordered map, one inductive step from a valid page (small-page build).
//!
//! Pre-state: an arbitrary valid leaf of a concrete *shape* (cell count, key/value lengths, free-space
//! position: chosen from a menu per harness) with symbolic key and value bytes. One real operation with
//! symbolic argument bytes. Post-state, checked on the raw page bytes:
//!   C29 (structure): header fields consistent, every slot points at one of the known cell positions with the
//!        right key length and zero-padded prefix, keys strictly increasing in slot order, free_end below every
//!        cell, cell bytes intact;
//!   C28 (ordered map): the set of entries reachable through the slots is exactly the reference result
//!        (old ∪ {new}, old \ {deleted}, …) — together with strict ordering this pins the slot sequence; an
//!        operation that fails leaves header, slots and cells unchanged.
//! Because the pre-state is *any* valid page of that shape, a passing step covers histories of any length that
//! reach such a page. The oracle never reads the page at a symbolic offset (that is what made a first version
//! run out of memory): it decodes each slot's offset against the known concrete cell positions.
use crate::pg::{self, Ent, CONTENT, SLOT};
use core::cmp::Ordering;
use turdb::btree::{LeafNode, LeafNodeMut, SearchResult};
use turdb::storage::PAGE_SIZE;

pub const NMAX: usize = 6;

/// Known cells of a page: entry + concrete offset.
#[derive(Clone, Copy)]
pub struct Known {
    pub e: [Ent; NMAX],
    pub off: [usize; NMAX],
    pub m: usize,
}
impl Known {
    pub fn new() -> Known { Known { e: [Ent::ZERO; NMAX], off: [0; NMAX], m: 0 } }
    pub fn push(&mut self, e: Ent, off: usize) { self.e[self.m] = e; self.off[self.m] = off; self.m += 1; }
}

/// Builds a valid leaf of shape (kl, vl) with symbolic bytes; returns the known cells and free_end.
pub fn any_leaf<const N: usize>(page: &mut [u8; PAGE_SIZE], kl: [usize; N], vl: [usize; N], top: usize, slack: usize, next: u32, frag: u8) -> (Known, usize) {
    let mut k = Known::new();
    let mut ents = [Ent::ZERO; NMAX];
    let mut off = top;
    let mut i = 0;
    while i < N { ents[i] = Ent::any(kl[i], vl[i]); off -= ents[i].cell_size(); k.push(ents[i], off); i += 1; }
    kani::assume(pg::sorted(&ents, N));
    let fe = pg::put_leaf(page, &ents, N, top, slack, next, frag);
    (k, fe)
}

fn sel(k: &Known, w: usize) -> Ent {
    let mut out = k.e[0];
    let mut i = 1;
    while i < NMAX { if i < k.m && w == i { out = k.e[i]; } i += 1; }
    out
}

/// Checks cell bytes at their concrete positions.
pub fn cells_intact(p: &[u8; PAGE_SIZE], k: &Known) -> bool {
    let mut ok = true;
    let mut c = 0;
    while c < NMAX {
        if c < k.m {
            let e = &k.e[c]; let o = k.off[c];
            let mut j = 0; while j < e.kl { if p[o + j] != e.k[j] { ok = false; } j += 1; }
            if p[o + e.kl] != e.vl as u8 { ok = false; }
            let mut j = 0; while j < e.vl { if p[o + e.kl + 1 + j] != e.v[j] { ok = false; } j += 1; }
        }
        c += 1;
    }
    ok
}

/// Decodes the slot array against the known cells. Returns (count, which[i]) or a violation code.
/// Codes: 1 type, 2 count, 3 free_start, 4 free_end range, 5 free_end above a referenced cell, 6 slot points at no
/// known cell, 7 key_len mismatch, 8 prefix mismatch, 9 keys not strictly increasing.
pub fn decode_leaf(p: &[u8; PAGE_SIZE], k: &Known, expect_n: usize) -> (u8, [usize; NMAX]) {
    let mut which = [0usize; NMAX];
    if p[0] != pg::T_LEAF { return (1, which); }
    let n = pg::get16(p, 2) as usize;
    if n != expect_n { return (2, which); }
    let fs = pg::get16(p, 4) as usize;
    let fe = pg::get16(p, 6) as usize;
    if fs != CONTENT + n * SLOT { return (3, which); }
    if fs > fe || fe > PAGE_SIZE { return (4, which); }
    let mut code = 0u8;
    let mut i = 0;
    while i < NMAX {
        if i < expect_n {
            let so = CONTENT + i * SLOT;
            let off = pg::get16(p, so + 4) as usize;
            let kl = pg::get16(p, so + 6) as usize;
            let mut w = NMAX;
            let mut c = 0;
            while c < NMAX { if c < k.m && off == k.off[c] { w = c; } c += 1; }
            if w == NMAX { if code == 0 { code = 6; } }
            else {
                which[i] = w;
                let e = sel(k, w);
                if off < fe && code == 0 { code = 5; }
                if kl != e.kl && code == 0 { code = 7; }
                let mut j = 0;
                while j < 4 { let want = if j < e.kl { e.k[j] } else { 0 }; if p[so + j] != want && code == 0 { code = 8; } j += 1; }
                if i > 0 {
                    let prev = sel(k, which[i - 1]);
                    if !pg::lex_lt(prev.key(), e.key()) && code == 0 { code = 9; }
                }
            }
        }
        i += 1;
    }
    (code, which)
}

fn contains(which: &[usize; NMAX], n: usize, c: usize) -> bool {
    let mut f = false;
    let mut i = 0; while i < NMAX { if i < n && which[i] == c { f = true; } i += 1; }
    f
}
fn key_present(k: &Known, key: &[u8]) -> bool {
    let mut f = false;
    let mut i = 0; while i < NMAX { if i < k.m && crate::common::lex_cmp(k.e[i].key(), key) == Ordering::Equal { f = true; } i += 1; }
    f
}
/// header + slot area snapshot (everything the logical content depends on besides the cells); rows of 8 bytes so
/// that every harness loop stays below the unwinding bound
fn head_snapshot(p: &[u8; PAGE_SIZE], n: usize) -> [[u8; 8]; 3 + NMAX] {
    let mut s = [[0u8; 8]; 3 + NMAX];
    let mut r = 0;
    while r < 3 + NMAX { if r < 3 + n { let mut j = 0; while j < 8 { s[r][j] = p[r * 8 + j]; j += 1; } } r += 1; }
    s
}
fn snap_eq(a: &[[u8; 8]; 3 + NMAX], b: &[[u8; 8]; 3 + NMAX]) -> bool {
    let mut ok = true;
    let mut r = 0;
    while r < 3 + NMAX { let mut j = 0; while j < 8 { if a[r][j] != b[r][j] { ok = false; } j += 1; } r += 1; }
    ok
}

macro_rules! assert_leaf_ok {
    ($code:expr) => {{
        let c = $code;
        assert!(c != 1 && c != 2, "role=c29_type_and_cell_count");
        assert!(c != 3 && c != 4 && c != 5, "role=c29_free_space_bounds");
        assert!(c != 6 && c != 7 && c != 8, "role=c29_slots_describe_their_cells");
        assert!(c != 9, "role=c29_keys_strictly_increasing");
    }};
}

#[derive(Clone, Copy, PartialEq)]
pub enum InsKind { Cell, CellAtFound, AtEnd }

/// insert_cell / insert_cell_at(find_key position) / insert_at_end(key assumed greatest) from any valid leaf of the shape.
fn step_insert<const N: usize>(kind: InsKind, kl: [usize; N], vl: [usize; N], nk: usize, nv: usize, top: usize, slack: usize) {
    let mut page = [0u8; PAGE_SIZE];
    let (mut k, fe) = any_leaf::<N>(&mut page, kl, vl, top, slack, 0, 0);
    { let (c, _) = decode_leaf(&page, &k, N); assert!(c == 0, "role=prestate_is_valid"); }
    let before = head_snapshot(&page, N);
    let e = Ent::any(nk, nv);
    let free = fe - (CONTENT + N * SLOT);
    let fits = free >= e.cell_size() + SLOT;
    let dup = key_present(&k, e.key());
    if kind == InsKind::AtEnd && N > 0 { kani::assume(pg::lex_lt(k.e[N - 1].key(), e.key())); }
    let r = {
        let mut leaf = match LeafNodeMut::from_page(&mut page) { Ok(l) => l, Err(_) => { assert!(false, "role=from_page_ok"); return; } };
        core::mem::ManuallyDrop::new(match kind {
            InsKind::Cell => leaf.insert_cell(e.key(), e.val()),
            InsKind::AtEnd => leaf.insert_at_end(e.key(), e.val()),
            InsKind::CellAtFound => match leaf.find_key(e.key()) {
                SearchResult::NotFound(pos) => leaf.insert_cell_at(e.key(), e.val(), pos),
                SearchResult::Found(_) => { assert!(dup, "role=find_reports_found_only_for_present_key"); return; }
            },
        })
    };
    kani::cover!(r.is_ok(), "w:insert_succeeds");
    kani::cover!(r.is_ok() && N > 0 && pg::lex_lt(e.key(), k.e[0].key()), "w:insert_before_first");
    if r.is_ok() {
        assert!(fits, "role=insert_succeeds_only_if_it_fits");
        assert!(!dup, "role=duplicate_key_rejected");
        k.push(e, fe - e.cell_size());
        let (code, which) = decode_leaf(&page, &k, N + 1);
        assert_leaf_ok!(code);
        assert!(cells_intact(&page, &k), "role=c28_cell_bytes_intact_after_insert");
        let mut c = 0; while c <= N { assert!(contains(&which, N + 1, c), "role=c28_insert_keeps_every_entry_and_adds_the_new_one"); c += 1; }
        assert!(pg::get16(&page, 6) as usize == fe - e.cell_size(), "role=c29_free_end_moves_by_cell_size");
    } else {
        assert!(!fits || dup, "role=insert_fails_only_when_full_or_duplicate");
        let after = head_snapshot(&page, N);
        assert!(snap_eq(&after, &before), "role=failed_insert_leaves_header_and_slots_unchanged");
        assert!(cells_intact(&page, &k), "role=failed_insert_leaves_cells_unchanged");
    }
}

// @vt prop=C28 tier=quick feat=sp fs=600 bound="insert_cell into ANY valid leaf of shape keys(2,5,3)/values(1,2,0) bytes (arbitrary bytes), new key 4 bytes / value 2 bytes (arbitrary), ample free space" outside="other shapes (sibling harnesses); values > 240 bytes" timeout=900 mem=16
vt_proof! { unwind = 10; fn c28_leaf_insert_3cells_k4() { step_insert::<3>(InsKind::Cell, [2, 5, 3], [1, 2, 0], 4, 2, PAGE_SIZE, 0); }}
