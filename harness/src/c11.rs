//! C11 — every stored value reads back unchanged (codec kernels): TOAST pointer codec, and the OwnedValue <-> record
//! glue for byte columns around the TOAST pointer size ("type chosen by inspection" must not misread user data).
use turdb::records::types::{ColumnDef, DataType};
use turdb::records::{RecordView, Schema};
use turdb::storage::toast::{is_toast_pointer, needs_toast, ToastPointer, TOAST_POINTER_SIZE};
use turdb::types::OwnedValue;

// @vt prop=C11 tier=quick bound="every TOAST pointer (any total_size, any chunk id; row id < 2^48 for the row/column packing)" outside="the chunk table itself (real files)" timeout=1800
vt_proof! { unwind = 19; fn c11_toast_pointer_codec() {
    let p = ToastPointer { total_size: kani::any(), chunk_id: kani::any() };
    let enc = p.encode();
    assert!(is_toast_pointer(&enc), "role=encoded_pointer_is_recognised");
    match ToastPointer::decode(&enc) { Ok(q) => assert!(q.total_size == p.total_size && q.chunk_id == p.chunk_id, "role=toast_pointer_roundtrip"), Err(_) => assert!(false, "role=toast_pointer_decodes") }
    let row: u64 = kani::any(); let col: u16 = kani::any(); kani::assume(row < (1u64 << 48));
    let q = ToastPointer::new(row, col, kani::any());
    assert!(q.row_id() == row && q.column_index() == col, "role=row_and_column_packing_roundtrip");
    kani::cover!(col == u16::MAX && row == (1u64 << 48) - 1, "w:extreme_packing");
}}

fn schema1(t: DataType) -> Schema { let mut c = Vec::with_capacity(1); c.push(ColumnDef::new("c", t)); Schema::new(c) }

/// A user blob of exactly `N` arbitrary bytes stored inline (N <= TOAST_THRESHOLD) must read back as the same blob.
fn blob_roundtrip<const N: usize>() {
    let schema = core::mem::ManuallyDrop::new(schema1(DataType::Blob));
    let data: [u8; N] = kani::any();
    assert!(!needs_toast(&data), "role=small_values_stay_inline");
    let vals = [OwnedValue::Blob(data.to_vec())];
    let rec = core::mem::ManuallyDrop::new(OwnedValue::build_record_from_values(&vals, &schema));
    let rec = match &*rec { Ok(r) => r, Err(_) => { assert!(false, "role=build_ok"); return; } };
    let view = core::mem::ManuallyDrop::new(RecordView::new(rec, &schema));
    let view = match &*view { Ok(v) => v, Err(_) => { assert!(false, "role=view_ok"); return; } };
    let back = core::mem::ManuallyDrop::new(OwnedValue::from_record_column(view, 0, DataType::Blob));
    match &*back {
        Ok(OwnedValue::Blob(b)) => { assert!(b.len() == N, "role=blob_length_roundtrip"); let mut i = 0; while i < N { assert!(b[i] == data[i], "role=blob_bytes_roundtrip"); i += 1; } }
        Ok(_) => assert!(false, "role=inline_blob_reads_back_as_blob"),
        Err(_) => assert!(false, "role=read_ok"),
    }
    kani::cover!(N > 0 && data[0] == 0xFE, "w:first_byte_is_the_toast_marker");
    core::mem::forget(vals);
}

// @vt prop=C11 tier=quick bound="inline blobs of exactly 16, 17 (= TOAST pointer size) and 18 arbitrary bytes through OwnedValue::build_record_from_values -> RecordView -> from_record_column" outside="other lengths; text columns (same inspection rule)" timeout=1800 mem=16
vt_proof! { unwind = 20; fn c11_inline_blob_near_pointer_size() {
    let which: u8 = kani::any(); kani::assume(which < 3);
    if which == 0 { blob_roundtrip::<16>() } else if which == 1 { blob_roundtrip::<{ TOAST_POINTER_SIZE }>() } else { blob_roundtrip::<18>() }
}}
