//! C15 / C17 — ordering and join-key kernels.
//!  C15: the comparator the Sort executor uses (`sql::util::compare_values_for_sort` = `Value::compare_for_sort`)
//!       must be a strict weak order on the values of one column (one type plus NULL), NULLs first, agreeing with
//!       the native order of the payload — otherwise `sort_by` produces an arbitrary permutation.
//!  C17: values that the join equality (`sql::util::keys_match_static` -> `Value::compare == Equal`) treats as equal
//!       must feed identical bytes to the hasher (`Value::hash_to`), otherwise a hash join misses rows that a
//!       nested-loop join returns.
use core::cmp::Ordering::{self, *};
use std::borrow::Cow;
use std::hash::Hasher;
use turdb::sql::util::{compare_values_for_sort, keys_match_static};
use turdb::types::Value;

fn any_int_or_null() -> Value<'static> { if kani::any() { Value::Null } else { Value::Int(kani::any()) } }
fn any_float_or_null(allow_nan: bool) -> Value<'static> {
    if kani::any() { Value::Null } else { let f: f64 = kani::any(); if !allow_nan { kani::assume(!f.is_nan()); } Value::Float(f) }
}
fn swo(a: &Value, b: &Value, c: &Value) {
    let ab = compare_values_for_sort(a, b); let ba = compare_values_for_sort(b, a);
    let bc = compare_values_for_sort(b, c); let ac = compare_values_for_sort(a, c);
    assert!(ab == ba.reverse(), "role=comparator_antisymmetric");
    if ab == Less && bc == Less { assert!(ac == Less, "role=comparator_transitive"); }
    if ab == Equal && bc == Equal { assert!(ac == Equal, "role=comparator_equivalence_transitive"); }
    if ab == Equal && bc == Less { assert!(ac == Less, "role=comparator_equivalence_compatible_with_order"); }
}

// @vt prop=C15 tier=quick bound="all triples of values of an integer column (NULL or any i64)" outside="mixed-type columns (their order is not defined by the property); the sort algorithm itself (std)" timeout=1800
vt_proof! { unwind = 4; fn c15_sort_comparator_int() {
    let (a, b, c) = (any_int_or_null(), any_int_or_null(), any_int_or_null());
    swo(&a, &b, &c);
    let ab = compare_values_for_sort(&a, &b);
    match (&a, &b) {
        (Value::Null, Value::Null) => assert!(ab == Equal, "role=null_equals_null_for_sorting"),
        (Value::Null, _) => assert!(ab == Less, "role=nulls_sort_first"),
        (_, Value::Null) => assert!(ab == Greater, "role=nulls_sort_first"),
        (Value::Int(x), Value::Int(y)) => assert!(ab == x.cmp(y), "role=ints_sort_in_numeric_order"),
        _ => {}
    }
    kani::cover!(matches!(a, Value::Null) && matches!(b, Value::Int(_)) && matches!(c, Value::Int(_)), "w:null_and_two_ints");
}}

// @vt prop=C15 tier=quick bound="all triples of values of a float column (NULL or any non-NaN f64 incl. +-0, +-inf, subnormals)" outside="NaN (c15_sort_comparator_float_nan)" timeout=1800
vt_proof! { unwind = 4; fn c15_sort_comparator_float() {
    let (a, b, c) = (any_float_or_null(false), any_float_or_null(false), any_float_or_null(false));
    swo(&a, &b, &c);
    let ab = compare_values_for_sort(&a, &b);
    match (&a, &b) {
        (Value::Null, Value::Float(_)) => assert!(ab == Less, "role=nulls_sort_first"),
        (Value::Float(x), Value::Float(y)) => { if x < y { assert!(ab == Less, "role=floats_sort_in_numeric_order"); } if x == y { assert!(ab == Equal, "role=floats_sort_in_numeric_order"); } }
        _ => {}
    }
    kani::cover!(matches!(a, Value::Float(x) if x < 0.0) && matches!(b, Value::Null), "w:negative_float_and_null");
}}

// @vt prop=C15 tier=quick bound="all triples of values of a float column incl. every NaN payload (consistency only: antisymmetry and transitivity, no particular place for NaN is demanded)" outside="-" timeout=1800
vt_proof! { unwind = 4; fn c15_sort_comparator_float_nan() {
    let (a, b, c) = (any_float_or_null(true), any_float_or_null(true), any_float_or_null(true));
    kani::cover!(matches!(a, Value::Float(x) if x.is_nan()) && matches!(b, Value::Float(x) if x < 1.0) && matches!(c, Value::Float(x) if x > 2.0), "w:nan_between_two_numbers");
    swo(&a, &b, &c);
}}

/// Hasher that records the byte stream it is fed (first 24 bytes and the length).
pub struct Rec { pub b: [u8; 24], pub n: usize }
impl Hasher for Rec {
    fn finish(&self) -> u64 { 0 }
    fn write(&mut self, bytes: &[u8]) { let mut i = 0; while i < bytes.len() { if self.n < 24 { self.b[self.n] = bytes[i]; } self.n += 1; i += 1; } }
}
fn stream(v: &Value) -> Rec { let mut r = Rec { b: [0; 24], n: 0 }; v.hash_to(&mut r); r }
fn same_stream(a: &Rec, b: &Rec) -> bool { if a.n != b.n { return false; } let mut i = 0; let mut ok = true; while i < 24 { if i < a.n && a.b[i] != b.b[i] { ok = false; } i += 1; } ok }

// @vt prop=C17 tier=quick bound="all pairs of join keys of one numeric type: (i64, i64) and (f64, f64) incl. +-0" outside="Int-vs-Float keys (c17_equal_keys_hash_equal_mixed); text/blob keys (equal bytes hash equally by construction of Hash for str/[u8])" timeout=1800
vt_proof! { unwind = 26; fn c17_equal_keys_hash_equal_same_type() {
    let ints: bool = kani::any();
    let (a, b): (Value<'static>, Value<'static>) = if ints { (Value::Int(kani::any()), Value::Int(kani::any())) } else { (Value::Float(kani::any()), Value::Float(kani::any())) };
    let la = [a]; let lb = [b];
    let eq = keys_match_static(&la, &lb, &[0], &[0]);
    kani::cover!(eq && !ints, "w:equal_floats");
    kani::cover!(!ints && matches!((&la[0], &lb[0]), (Value::Float(x), Value::Float(y)) if x.to_bits() != y.to_bits() && x == y), "w:plus_and_minus_zero");
    if eq { assert!(same_stream(&stream(&la[0]), &stream(&lb[0])), "role=equal_join_keys_hash_identically"); }
    // NULL never matches anything (SQL join semantics)
    let ln = [Value::Null];
    assert!(!keys_match_static(&ln, &la, &[0], &[0]) && !keys_match_static(&ln, &ln, &[0], &[0]), "role=null_join_key_matches_nothing");
}}

// @vt prop=C17 tier=quick bound="all pairs (i64 key, f64 key) that the join equality treats as equal" outside="-" timeout=1800
vt_proof! { unwind = 26; fn c17_equal_keys_hash_equal_mixed() {
    let la = [Value::Int(kani::any())]; let lb = [Value::Float(kani::any())];
    let eq = keys_match_static(&la, &lb, &[0], &[0]);
    kani::cover!(eq, "w:int_equals_float");
    if eq { assert!(same_stream(&stream(&la[0]), &stream(&lb[0])), "role=equal_int_and_float_join_keys_hash_identically"); }
}}

// ---------------------------------------------------------------- LIMIT / OFFSET window
use turdb::sql::executor::{Executor, ExecutorRow, LimitExecutor};

static ROWS: [[Value<'static>; 1]; 5] = [[Value::Int(10)], [Value::Int(11)], [Value::Int(12)], [Value::Int(13)], [Value::Int(14)]];
/// Child executor yielding `n` rows tagged 10, 11, ...
struct Child { i: usize, n: usize }
impl<'a> Executor<'a> for Child {
    fn open(&mut self) -> eyre::Result<()> { self.i = 0; Ok(()) }
    fn next(&mut self) -> eyre::Result<Option<ExecutorRow<'a>>> {
        if self.i < self.n { self.i += 1; Ok(Some(ExecutorRow::new(&ROWS[self.i - 1]))) } else { Ok(None) }
    }
    fn close(&mut self) -> eyre::Result<()> { Ok(()) }
}

// @vt prop=C15 tier=quick bound="LimitExecutor over a child of 0..=5 rows with ANY limit (None or any u64) and ANY offset (None or any u64): the rows returned are exactly rows [offset, offset+limit) of the child, in order" outside="children with more than 5 rows" timeout=1800
vt_proof! { unwind = 8; fn c15_limit_offset_window() {
    let n: usize = kani::any(); kani::assume(n <= 5);
    let limit: Option<u64> = if kani::any() { None } else { Some(kani::any()) };
    let offset: Option<u64> = if kani::any() { None } else { Some(kani::any()) };
    let mut ex = LimitExecutor::new(Child { i: 0, n }, limit, offset);
    let o = core::mem::ManuallyDrop::new(ex.open()); assert!(o.is_ok(), "role=open_ok");
    let off = offset.unwrap_or(0);
    let mut got = 0u64;
    let mut k = 0;
    while k < 7 {
        let r = core::mem::ManuallyDrop::new(ex.next());
        match &*r {
            Ok(Some(row)) => {
                let want_idx = off + got; // saturating not needed: a row was produced, so off + got < n
                assert!(want_idx < n as u64, "role=limit_returns_only_existing_rows");
                assert!(matches!(row.get(0), Some(Value::Int(t)) if *t == 10 + want_idx as i64), "role=limit_offset_returns_rows_in_order_from_offset");
                got += 1;
                if let Some(l) = limit { assert!(got <= l, "role=limit_is_not_exceeded"); }
            }
            Ok(None) => {}
            Err(_) => assert!(false, "role=next_ok"),
        }
        k += 1;
    }
    // exactly min(limit, max(n - offset, 0)) rows came out
    let avail = if off >= n as u64 { 0 } else { n as u64 - off };
    let want = match limit { Some(l) if l < avail => l, _ => avail };
    assert!(got == want, "role=limit_offset_window_size");
    kani::cover!(got == 2 && off == 2, "w:middle_window");
    kani::cover!(limit == Some(0), "w:limit_zero");
}}
