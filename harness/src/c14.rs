//! C14 — WHERE filtering follows SQL three-valued logic: `CompiledPredicate::evaluate` (the row filter) returns a row
//! iff the predicate is TRUE; `evaluate_to_value` (select list) yields the same TRUE/FALSE/NULL.
//! Expression trees are built directly from `turdb::sql::ast` nodes (what the parser produces, without the parser);
//! operand values enter as bound parameters (`?1 .. ?4`), each NULL, any INTEGER or any non-NaN FLOAT.
use core::cmp::Ordering;
use core::mem::ManuallyDrop;
use turdb::sql::ast::{BinaryOperator as B, Expr, Literal, ParameterRef, UnaryOperator};
use turdb::sql::executor::ExecutorRow;
use turdb::sql::predicate::CompiledPredicate;
use turdb::types::{OwnedValue, Value};

// ---- stubs: parts of the evaluator that none of these expressions can reach. `match expr` in `eval_value` reads the
// variant through a pointer taken from an enum payload, which the symbolic executor cannot resolve (DESIGN 0.2 item 11),
// so without these every evaluation also explores SQL function dispatch, CAST parsing, CASE, arithmetic / JSON / vector
// operators. Each stub FAILS if it is ever called (a visible failure, judged by the native replay), it does not assume.
pub fn stub_eval_function<'a>(_s: &CompiledPredicate<'a>, _f: &turdb::sql::ast::FunctionCall<'a>, _r: &ExecutorRow<'a>) -> Option<Value<'a>> where 'a: 'a {
    panic!("role=no_function_call_is_evaluated_in_a_function_free_expression")
}
pub fn stub_eval_cast<'a>(_s: &CompiledPredicate<'a>, _v: &Value<'a>, _t: &turdb::sql::ast::DataType<'a>) -> Option<Value<'a>> where 'a: 'a {
    panic!("role=no_cast_is_evaluated_in_a_cast_free_expression")
}
pub fn stub_eval_case<'a>(_s: &CompiledPredicate<'a>, _o: Option<&Expr<'a>>, _c: &[turdb::sql::ast::WhenClause<'a>], _e: Option<&Expr<'a>>, _r: &ExecutorRow<'a>) -> Option<Value<'a>> where 'a: 'a {
    panic!("role=no_case_is_evaluated_in_a_case_free_expression")
}
pub fn stub_eval_binary_op<'a>(_s: &CompiledPredicate<'a>, _l: &Value<'a>, _o: &B, _r: &Value<'a>) -> Option<Value<'a>> where 'a: 'a {
    panic!("role=no_value_level_binary_operator_is_evaluated_on_the_filter_path")
}
pub fn stub_eval_array_subscript<'a>(_s: &CompiledPredicate<'a>, _a: &Value<'a>, _i: &Value<'a>) -> Option<Value<'a>> where 'a: 'a {
    panic!("role=no_array_subscript_is_evaluated")
}
pub fn stub_f64_from_str(_s: &str) -> Result<f64, core::num::ParseFloatError> { panic!("role=no_literal_is_parsed_in_a_literal_free_expression") }
pub fn stub_i64_from_str(_s: &str) -> Result<i64, core::num::ParseIntError> { panic!("role=no_literal_is_parsed_in_a_literal_free_expression") }
pub fn stub_like_match<'a>(_s: &CompiledPredicate<'a>, _t: &str, _p: &str, _ci: bool) -> bool where 'a: 'a { panic!("role=no_like_is_evaluated_in_a_like_free_expression") }
macro_rules! vt_proof_pred {
    (unwind = $u:expr; fn $name:ident() $body:block) => {
        #[cfg(kani)]
        #[kani::proof]
        #[kani::stub(eyre::capture_handler, $crate::common::stub_capture_handler)]
        #[kani::stub(alloc::fmt::format, $crate::common::stub_format)]
        #[kani::stub(<eyre::Report as core::ops::Drop>::drop, $crate::common::stub_report_drop)]
        #[kani::stub(core::arch::x86_64::__cpuid_count, $crate::common::stub_cpuid_noavx)]
        #[kani::stub(turdb::sql::predicate::CompiledPredicate::eval_function, stub_eval_function)]
        #[kani::stub(turdb::sql::predicate::CompiledPredicate::eval_cast, stub_eval_cast)]
        #[kani::stub(turdb::sql::predicate::CompiledPredicate::eval_case, stub_eval_case)]
        #[kani::stub(turdb::sql::predicate::CompiledPredicate::eval_binary_op, stub_eval_binary_op)]
        #[kani::stub(turdb::sql::predicate::CompiledPredicate::eval_array_subscript, stub_eval_array_subscript)]
        #[kani::stub(turdb::sql::predicate::CompiledPredicate::like_match, stub_like_match)]
        #[kani::stub(<f64 as core::str::FromStr>::from_str, stub_f64_from_str)]
        #[kani::stub(<i64 as core::str::FromStr>::from_str, stub_i64_from_str)]
        #[kani::unwind($u)]
        pub fn $name() $body
    };
}

/// Reference value and SQL three-valued logic (the trusted base of this module).
#[derive(Clone, Copy)]
pub enum V { Null, Int(i64), Float(f64) }
pub type T = Option<bool>; // None = NULL (unknown)

pub fn r_cmp(a: V, b: V) -> Option<Ordering> {
    match (a, b) {
        (V::Null, _) | (_, V::Null) => None,
        (V::Int(x), V::Int(y)) => Some(x.cmp(&y)),
        (V::Int(x), V::Float(y)) => (x as f64).partial_cmp(&y),
        (V::Float(x), V::Int(y)) => x.partial_cmp(&(y as f64)),
        (V::Float(x), V::Float(y)) => x.partial_cmp(&y),
    }
}
pub fn r_op(op: u8, a: V, b: V) -> T {
    let o = r_cmp(a, b)?;
    Some(match op { 0 => o == Ordering::Equal, 1 => o != Ordering::Equal, 2 => o == Ordering::Less, 3 => o != Ordering::Greater, 4 => o == Ordering::Greater, _ => o != Ordering::Less })
}
pub fn r_not(t: T) -> T { t.map(|b| !b) }
pub fn r_and(a: T, b: T) -> T { match (a, b) { (Some(false), _) | (_, Some(false)) => Some(false), (Some(true), Some(true)) => Some(true), _ => None } }
pub fn r_or(a: T, b: T) -> T { match (a, b) { (Some(true), _) | (_, Some(true)) => Some(true), (Some(false), Some(false)) => Some(false), _ => None } }
pub fn r_in2(x: V, a: V, b: V) -> T { r_or(r_op(0, x, a), r_op(0, x, b)) }
pub fn r_between(x: V, lo: V, hi: V) -> T { r_and(r_op(5, x, lo), r_op(3, x, hi)) }

fn op_of(k: u8) -> B { match k { 0 => B::Eq, 1 => B::NotEq, 2 => B::Lt, 3 => B::LtEq, 4 => B::Gt, _ => B::GtEq } }

/// kinds: 0 = NULL, 1 = INTEGER, 2 = FLOAT (concrete per call so that only that arm of the evaluator is explored)
fn mk(kind: u8) -> (V, OwnedValue) {
    match kind {
        0 => (V::Null, OwnedValue::Null),
        1 => { let x: i64 = kani::any(); (V::Int(x), OwnedValue::Int(x)) }
        _ => {
            let f: f64 = kani::any(); kani::assume(!f.is_nan());
            (V::Float(f), OwnedValue::Float(f))
        }
    }
}
/// mixed INTEGER/FLOAT comparisons are claimed where the INTEGER is exactly representable as a double
fn mixed_ok(a: V, b: V) -> bool {
    let small = |x: i64| x >= -(1i64 << 53) && x <= (1i64 << 53);
    match (a, b) { (V::Int(x), V::Float(_)) | (V::Float(_), V::Int(x)) => small(x), _ => true }
}

/// filter path only: `CompiledPredicate::evaluate`
macro_rules! check_filter { ($expr:expr, $params:expr, $expect:expr, $fr:literal) => {{
    let expect: T = $expect;
    let pred = ManuallyDrop::new(CompiledPredicate::with_params_hashmap($expr, hashbrown::HashMap::new(), $params, 0));
    let vals: [Value<'_>; 0] = [];
    let row = ExecutorRow::new(&vals);
    let got = pred.evaluate(&row);
    assert!(got == (expect == Some(true)), $fr);
}}}
/// filter path and select-list path (`evaluate_to_value`)
macro_rules! check { ($expr:expr, $params:expr, $expect:expr, $fr:literal, $vr:literal) => {{
    let expect: T = $expect;
    let pred = ManuallyDrop::new(CompiledPredicate::with_params_hashmap($expr, hashbrown::HashMap::new(), $params, 0));
    let vals: [Value<'_>; 0] = [];
    let row = ExecutorRow::new(&vals);
    let got = pred.evaluate(&row);
    assert!(got == (expect == Some(true)), $fr);
    let v = ManuallyDrop::new(pred.evaluate_to_value(&row));
    let ok = match (&*v, expect) {
        (Some(Value::Int(n)), Some(b)) => (*n != 0) == b && (*n == 0 || *n == 1),
        (Some(Value::Null), None) | (None, None) => true,
        _ => false,
    };
    assert!(ok, $vr);
}}}

macro_rules! P { ($n:expr) => { Expr::Parameter(ParameterRef::Positional($n)) } }

/// `?1 op ?2` (optionally under NOT) for one concrete pair of operand kinds and one concrete operator
/// (a symbolic operator would make every arm of `eval_binary_op` live: JSON, arrays, vectors, ...).
fn cmp_case(ka: u8, kb: u8, k: u8, negate: bool) {
    let (a, pa) = mk(ka); let (b, pb) = mk(kb);
    kani::assume(mixed_ok(a, b));
    let params = ManuallyDrop::new([pa, pb]);
    let (l, r) = (P!(1), P!(2));
    let e = Expr::BinaryOp { left: &l, op: op_of(k), right: &r };
    let want = r_op(k, a, b);
    if negate {
        let n = Expr::UnaryOp { op: UnaryOperator::Not, expr: &e };
        check_filter!(&n, &*params, r_not(want), "role=not_comparison_row_returned_iff_true");
    } else {
        check_filter!(&e, &*params, want, "role=comparison_row_returned_iff_true");
    }
}
// ---- comparisons: `?1 op ?2` as a row filter (kinds: 0 NULL, 1 INTEGER, 2 FLOAT; ops: 0 = 1 <> 2 < 3 <= 4 > 5 >=)

// @vt prop=C14 tier=quick bound="?1 op ?2 as a row filter, op in {=,<>,<}; both operands any INTEGER" outside="text operands; NaN; columns (hash-map lookup by name) and literals (parsed from text); the select-list value of a comparison (DESIGN 0.2 item 11)" timeout=1800 mem=16
vt_proof_pred! { unwind = 4; fn c14_cmp_int_int_a() {
    cmp_case(1, 1, 0, false); cmp_case(1, 1, 1, false); cmp_case(1, 1, 2, false);
    kani::cover!(true, "w:reached_end");
}}

// @vt prop=C14 tier=quick bound="?1 op ?2 as a row filter, op in {<=,>,>=}; both operands any INTEGER" outside="text operands; NaN; columns (hash-map lookup by name) and literals (parsed from text); the select-list value of a comparison (DESIGN 0.2 item 11)" timeout=1800 mem=16
vt_proof_pred! { unwind = 4; fn c14_cmp_int_int_b() {
    cmp_case(1, 1, 3, false); cmp_case(1, 1, 4, false); cmp_case(1, 1, 5, false);
    kani::cover!(true, "w:reached_end");
}}

// @vt prop=C14 tier=quick bound="NULL = x, x < NULL (x any INTEGER) and NULL = NULL as row filters" outside="text operands; NaN; columns (hash-map lookup by name) and literals (parsed from text); the select-list value of a comparison (DESIGN 0.2 item 11)" timeout=1800 mem=16
vt_proof_pred! { unwind = 4; fn c14_cmp_with_null() {
    cmp_case(0, 1, 0, false); cmp_case(1, 0, 2, false); cmp_case(0, 0, 0, false);
    kani::cover!(true, "w:reached_end");
}}

// @vt prop=C14 tier=quick bound="INTEGER = FLOAT, FLOAT < INTEGER (|INTEGER| <= 2^53) and FLOAT >= FLOAT as row filters; any non-NaN FLOAT" outside="|INTEGER| > 2^53 against FLOAT (the evaluator compares through f64); text operands; NaN; columns (hash-map lookup by name) and literals (parsed from text); the select-list value of a comparison (DESIGN 0.2 item 11)" timeout=1800 mem=16
vt_proof_pred! { unwind = 4; fn c14_cmp_mixed() {
    cmp_case(1, 2, 0, false); cmp_case(2, 1, 2, false); cmp_case(2, 2, 5, false);
    kani::cover!(true, "w:reached_end");
}}

// @vt prop=C14 tier=thorough bound="FLOAT op FLOAT for {=,<,>} as row filters; any non-NaN FLOAT" outside="text operands; NaN; columns (hash-map lookup by name) and literals (parsed from text); the select-list value of a comparison (DESIGN 0.2 item 11)" timeout=1800 mem=16
vt_proof_pred! { unwind = 4; fn c14_cmp_float_float() {
    cmp_case(2, 2, 0, false); cmp_case(2, 2, 2, false); cmp_case(2, 2, 4, false);
    kani::cover!(true, "w:reached_end");
}}

// @vt prop=C14 tier=thorough bound="INTEGER op FLOAT for {<,>=,<>} as row filters; |INTEGER| <= 2^53" outside="text operands; NaN; columns (hash-map lookup by name) and literals (parsed from text); the select-list value of a comparison (DESIGN 0.2 item 11)" timeout=1800 mem=16
vt_proof_pred! { unwind = 4; fn c14_cmp_int_float() {
    cmp_case(1, 2, 2, false); cmp_case(1, 2, 5, false); cmp_case(1, 2, 1, false);
    kani::cover!(true, "w:reached_end");
}}

// @vt prop=C14 tier=thorough bound="FLOAT op INTEGER for {=,>,<=} as row filters; |INTEGER| <= 2^53" outside="text operands; NaN; columns (hash-map lookup by name) and literals (parsed from text); the select-list value of a comparison (DESIGN 0.2 item 11)" timeout=1800 mem=16
vt_proof_pred! { unwind = 4; fn c14_cmp_float_int() {
    cmp_case(2, 1, 0, false); cmp_case(2, 1, 4, false); cmp_case(2, 1, 3, false);
    kani::cover!(true, "w:reached_end");
}}

// @vt prop=C14 tier=thorough bound="NULL < FLOAT, FLOAT >= NULL, NULL <> NULL as row filters" outside="text operands; NaN; columns (hash-map lookup by name) and literals (parsed from text); the select-list value of a comparison (DESIGN 0.2 item 11)" timeout=1800 mem=16
vt_proof_pred! { unwind = 4; fn c14_cmp_null_more() {
    cmp_case(0, 2, 2, false); cmp_case(2, 0, 5, false); cmp_case(0, 0, 1, false);
    kani::cover!(true, "w:reached_end");
}}

// @vt prop=C14 tier=quick bound="NOT (?1 = ?2), NOT (?1 < ?2) with both any INTEGER, NOT (NULL = ?2) as row filters" outside="text operands; NaN; columns (hash-map lookup by name) and literals (parsed from text); the select-list value of a comparison (DESIGN 0.2 item 11)" timeout=1800 mem=16
vt_proof_pred! { unwind = 4; fn c14_not_cmp() {
    cmp_case(1, 1, 0, true); cmp_case(1, 1, 2, true); cmp_case(0, 1, 0, true);
    kani::cover!(true, "w:reached_end");
}}

// @vt prop=C14 tier=quick bound="NOT (NULL = NULL), NOT (?1 >= NULL), NOT (FLOAT < FLOAT) as row filters" outside="text operands; NaN; columns (hash-map lookup by name) and literals (parsed from text); the select-list value of a comparison (DESIGN 0.2 item 11)" timeout=1800 mem=16
vt_proof_pred! { unwind = 4; fn c14_not_cmp_null() {
    cmp_case(0, 0, 0, true); cmp_case(1, 0, 5, true); cmp_case(2, 2, 2, true);
    kani::cover!(true, "w:reached_end");
}}

// @vt prop=C14 tier=thorough bound="NOT (?1 <> ?2), NOT (?1 <= ?2), NOT (?1 > ?2) with both any INTEGER as row filters" outside="text operands; NaN; columns (hash-map lookup by name) and literals (parsed from text); the select-list value of a comparison (DESIGN 0.2 item 11)" timeout=1800 mem=16
vt_proof_pred! { unwind = 4; fn c14_not_cmp_more() {
    cmp_case(1, 1, 1, true); cmp_case(1, 1, 3, true); cmp_case(1, 1, 4, true);
    kani::cover!(true, "w:reached_end");
}}


/// `(?1 = ?2) AND|OR (?3 < ?2)`, optionally under NOT; ?2 any INTEGER, ?1 and ?3 each NULL or any INTEGER, so that the two
/// sides take every pair of TRUE / FALSE / NULL.
fn andor_case(ka: u8, kc: u8, is_and: bool, negate: bool) {
    let (a, pa) = mk(ka); let (b, pb) = mk(1); let (c, pc) = mk(kc);
    let params = ManuallyDrop::new([pa, pb, pc]);
    let (p1, p2, p3) = (P!(1), P!(2), P!(3));
    let e1 = Expr::BinaryOp { left: &p1, op: B::Eq, right: &p2 };
    let e2 = Expr::BinaryOp { left: &p3, op: B::Lt, right: &p2 };
    let (t1, t2) = (r_op(0, a, b), r_op(2, c, b));
    if is_and {
        let e = Expr::BinaryOp { left: &e1, op: B::And, right: &e2 };
        let want = r_and(t1, t2);
        if negate {
            let n = Expr::UnaryOp { op: UnaryOperator::Not, expr: &e };
            check_filter!(&n, &*params, r_not(want), "role=not_and_row_returned_iff_true");
        } else {
            check_filter!(&e, &*params, want, "role=and_row_returned_iff_true");
        }
    } else {
        let e = Expr::BinaryOp { left: &e1, op: B::Or, right: &e2 };
        let want = r_or(t1, t2);
        if negate {
            let n = Expr::UnaryOp { op: UnaryOperator::Not, expr: &e };
            check_filter!(&n, &*params, r_not(want), "role=not_or_row_returned_iff_true");
        } else {
            check_filter!(&e, &*params, want, "role=or_row_returned_iff_true");
        }
    }
}

// @vt prop=C14 tier=quick bound="(?1 = ?2) AND (?3 < ?2) as a row filter; ?2 any INTEGER; (?1, ?3) kinds (INTEGER, INTEGER) and (NULL, INTEGER): sides TRUE/FALSE x TRUE/FALSE and NULL x TRUE/FALSE" outside="FLOAT/text operands here; deeper nesting; the select-list value" timeout=1800 mem=20
vt_proof_pred! { unwind = 4; fn c14_and() {
    andor_case(1, 1, true, false); andor_case(0, 1, true, false);
    kani::cover!(true, "w:reached_end");
}}

// @vt prop=C14 tier=thorough bound="(?1 = ?2) AND (?3 < ?2) as a row filter; (?1, ?3) kinds (INTEGER, NULL) and (NULL, NULL)" outside="FLOAT/text operands here; deeper nesting; the select-list value" timeout=1800 mem=20
vt_proof_pred! { unwind = 4; fn c14_and_b() {
    andor_case(1, 0, true, false); andor_case(0, 0, true, false);
    kani::cover!(true, "w:reached_end");
}}

// @vt prop=C14 tier=quick bound="(?1 = ?2) OR (?3 < ?2) as a row filter; (?1, ?3) kinds (INTEGER, NULL) and (NULL, INTEGER)" outside="FLOAT/text operands here; deeper nesting; the select-list value" timeout=1800 mem=20
vt_proof_pred! { unwind = 4; fn c14_or() {
    andor_case(1, 0, false, false); andor_case(0, 1, false, false);
    kani::cover!(true, "w:reached_end");
}}

// @vt prop=C14 tier=thorough bound="(?1 = ?2) OR (?3 < ?2) as a row filter; (?1, ?3) kinds (INTEGER, INTEGER) and (NULL, NULL)" outside="FLOAT/text operands here; deeper nesting; the select-list value" timeout=1800 mem=20
vt_proof_pred! { unwind = 4; fn c14_or_b() {
    andor_case(1, 1, false, false); andor_case(0, 0, false, false);
    kani::cover!(true, "w:reached_end");
}}

// @vt prop=C14 tier=quick bound="NOT ((?1 = ?2) AND (?3 < ?2)) as a row filter; (?1, ?3) kinds (INTEGER, INTEGER) and (INTEGER, NULL)" outside="FLOAT/text operands here; deeper nesting; the select-list value" timeout=1800 mem=20
vt_proof_pred! { unwind = 4; fn c14_not_and() {
    andor_case(1, 1, true, true); andor_case(1, 0, true, true);
    kani::cover!(true, "w:reached_end");
}}

// @vt prop=C14 tier=quick bound="NOT ((?1 = ?2) OR (?3 < ?2)) as a row filter; (?1, ?3) kinds (INTEGER, INTEGER) and (NULL, INTEGER)" outside="FLOAT/text operands here; deeper nesting; the select-list value" timeout=1800 mem=20
vt_proof_pred! { unwind = 4; fn c14_not_or() {
    andor_case(1, 1, false, true); andor_case(0, 1, false, true);
    kani::cover!(true, "w:reached_end");
}}

// @vt prop=C14 tier=thorough bound="NOT ((?1 = ?2) AND (?3 < ?2)) with (?1, ?3) kinds (NULL, INTEGER) and (NULL, NULL)" outside="FLOAT/text operands here; deeper nesting; the select-list value" timeout=3600 mem=20
vt_proof_pred! { unwind = 4; fn c14_not_and_b() {
    andor_case(0, 1, true, true); andor_case(0, 0, true, true);
    kani::cover!(true, "w:reached_end");
}}
// @vt prop=C14 tier=thorough bound="NOT ((?1 = ?2) OR (?3 < ?2)) with (?1, ?3) kinds (INTEGER, NULL) and (NULL, NULL)" outside="FLOAT/text operands here; deeper nesting; the select-list value" timeout=3600 mem=20
vt_proof_pred! { unwind = 4; fn c14_not_or_b() {
    andor_case(1, 0, false, true); andor_case(0, 0, false, true);
    kani::cover!(true, "w:reached_end");
}}


/// `?1 [NOT] IN (?2, ?3)`; `wrap_not` puts the whole node under a NOT (TRUE iff the node is FALSE, so that NULL and FALSE
/// are told apart through the filter alone); `both` also checks the select-list value.
fn in_case(kinds: [u8; 3], negated: bool, wrap_not: bool, both: bool) {
    let (x, px) = mk(kinds[0]); let (a, pa) = mk(kinds[1]); let (b, pb) = mk(kinds[2]);
    let params = ManuallyDrop::new([px, pa, pb]);
    let (p1, p2, p3) = (P!(1), P!(2), P!(3));
    let list: [&Expr<'_>; 2] = [&p2, &p3];
    let e = Expr::InList { expr: &p1, negated, list: &list };
    let t = r_in2(x, a, b);
    let t = if negated { r_not(t) } else { t };
    if wrap_not {
        let n = Expr::UnaryOp { op: UnaryOperator::Not, expr: &e };
        check_filter!(&n, &*params, r_not(t), "role=not_of_in_list_row_returned_iff_true");
    } else if both {
        check!(&e, &*params, t, "role=in_list_row_returned_iff_true", "role=in_list_value_is_three_valued");
    } else {
        check_filter!(&e, &*params, t, "role=in_list_row_returned_iff_true");
    }
}

// @vt prop=C14 tier=quick bound="?1 IN (?2, ?3) and ?1 NOT IN (?2, ?3), all any INTEGER: row filter and select-list value" outside="FLOAT members (IN compares floats with an epsilon); lists longer than 2; text" timeout=1800 mem=24
vt_proof_pred! { unwind = 3; fn c14_in_list() {
    in_case([1, 1, 1], false, false, true); in_case([1, 1, 1], true, false, true);
    kani::cover!(true, "w:reached_end");
}}

// @vt prop=C14 tier=quick bound="?1 IN (NULL, ?3), NULL IN (?2, ?3), ?1 NOT IN (?2, NULL) as row filters (the others any INTEGER)" outside="FLOAT members (IN compares floats with an epsilon); lists longer than 2; text; the select-list value for these (thorough: c14_in_list_null_value)" timeout=1800 mem=24
vt_proof_pred! { unwind = 3; fn c14_in_list_null() {
    in_case([1, 0, 1], false, false, false); in_case([0, 1, 1], false, false, false); in_case([1, 1, 0], true, false, false);
    kani::cover!(true, "w:reached_end");
}}

// @vt prop=C14 tier=quick bound="NOT (?1 IN (?2, NULL)), NOT (?1 IN (?2, ?3)), NOT (?1 NOT IN (NULL, ?3)) as row filters" outside="FLOAT members (IN compares floats with an epsilon); lists longer than 2; text" timeout=1800 mem=24
vt_proof_pred! { unwind = 3; fn c14_not_of_in_list() {
    in_case([1, 1, 0], false, true, false); in_case([1, 1, 1], false, true, false); in_case([1, 0, 1], true, true, false);
    kani::cover!(true, "w:reached_end");
}}

// @vt prop=C14 tier=thorough bound="?1 IN (?2, NULL), ?1 IN (NULL, NULL), NULL IN (NULL, ?3) as row filters" outside="FLOAT members (IN compares floats with an epsilon); lists longer than 2; text" timeout=3600 mem=24
vt_proof_pred! { unwind = 3; fn c14_in_list_null_more_a() {
    in_case([1, 1, 0], false, false, false); in_case([1, 0, 0], false, false, false); in_case([0, 0, 1], false, false, false);
    kani::cover!(true, "w:reached_end");
}}
// @vt prop=C14 tier=thorough bound="NULL IN (NULL, NULL), ?1 NOT IN (NULL, ?3), ?1 NOT IN (NULL, NULL) as row filters" outside="FLOAT members (IN compares floats with an epsilon); lists longer than 2; text" timeout=3600 mem=24
vt_proof_pred! { unwind = 3; fn c14_in_list_null_more_b() {
    in_case([0, 0, 0], false, false, false); in_case([1, 0, 1], true, false, false); in_case([1, 0, 0], true, false, false);
    kani::cover!(true, "w:reached_end");
}}
// @vt prop=C14 tier=thorough bound="NULL NOT IN (?2, ?3), NOT (NULL IN (?2, ?3)) as row filters" outside="FLOAT members (IN compares floats with an epsilon); lists longer than 2; text" timeout=3600 mem=24
vt_proof_pred! { unwind = 3; fn c14_in_list_null_more_c() {
    in_case([0, 1, 1], true, false, false); in_case([0, 1, 1], false, true, false);
    kani::cover!(true, "w:reached_end");
}}

// @vt prop=C14 tier=thorough bound="row filter and select-list value of ?1 IN (?2, NULL) and NULL IN (?2, ?3): INTEGER operands" outside="FLOAT members (IN compares floats with an epsilon); lists longer than 2; text" timeout=3600 mem=40
vt_proof_pred! { unwind = 3; fn c14_in_list_null_value() {
    in_case([1, 1, 0], false, false, true); in_case([0, 1, 1], false, false, true);
    kani::cover!(true, "w:reached_end");
}}


/// `?1 [NOT] BETWEEN ?2 AND ?3`, optionally under NOT
fn between_case(kinds: [u8; 3], negated: bool, wrap_not: bool) {
    let (x, px) = mk(kinds[0]); let (lo, pl) = mk(kinds[1]); let (hi, ph) = mk(kinds[2]);
    kani::assume(mixed_ok(x, lo) && mixed_ok(x, hi));
    let params = ManuallyDrop::new([px, pl, ph]);
    let (p1, p2, p3) = (P!(1), P!(2), P!(3));
    let e = Expr::Between { expr: &p1, negated, low: &p2, high: &p3 };
    let t = r_between(x, lo, hi);
    let t = if negated { r_not(t) } else { t };
    if wrap_not {
        let n = Expr::UnaryOp { op: UnaryOperator::Not, expr: &e };
        check_filter!(&n, &*params, r_not(t), "role=not_of_between_row_returned_iff_true");
    } else if negated {
        check_filter!(&e, &*params, t, "role=not_between_row_returned_iff_true");
    } else {
        check_filter!(&e, &*params, t, "role=between_row_returned_iff_true");
    }
}

// @vt prop=C14 tier=quick bound="?1 BETWEEN ?2 AND ?3 (all INTEGER), ?1 BETWEEN NULL AND ?3, ?1 NOT BETWEEN ?2 AND NULL as row filters" outside="text; NaN; the select-list value" timeout=1800 mem=24
vt_proof_pred! { unwind = 4; fn c14_between() {
    between_case([1, 1, 1], false, false); between_case([1, 0, 1], false, false); between_case([1, 1, 0], true, false);
    kani::cover!(true, "w:reached_end");
}}

// @vt prop=C14 tier=quick bound="NOT (?1 BETWEEN ?2 AND NULL), NOT (?1 BETWEEN ?2 AND ?3), ?1 NOT BETWEEN ?2 AND ?3 (all INTEGER) as row filters" outside="text; NaN; the select-list value" timeout=1800 mem=24
vt_proof_pred! { unwind = 4; fn c14_not_of_between() {
    between_case([1, 1, 0], false, true); between_case([1, 1, 1], false, true); between_case([1, 1, 1], true, false);
    kani::cover!(true, "w:reached_end");
}}

// @vt prop=C14 tier=thorough bound="BETWEEN over FLOATs, INTEGER (|x| <= 2^53) between FLOATs, NULL BETWEEN ?2 AND ?3 as row filters" outside="text; NaN; the select-list value" timeout=3600 mem=24
vt_proof_pred! { unwind = 4; fn c14_between_more_a() {
    between_case([2, 2, 2], false, false); between_case([1, 2, 2], false, false); between_case([0, 1, 1], false, false);
    kani::cover!(true, "w:reached_end");
}}
// @vt prop=C14 tier=thorough bound="?1 BETWEEN NULL AND NULL, ?1 NOT BETWEEN NULL AND ?3, NULL NOT BETWEEN ?2 AND ?3 as row filters" outside="text; NaN; the select-list value" timeout=3600 mem=24
vt_proof_pred! { unwind = 4; fn c14_between_more_b() {
    between_case([1, 0, 0], false, false); between_case([1, 0, 1], true, false); between_case([0, 1, 1], true, false);
    kani::cover!(true, "w:reached_end");
}}
// @vt prop=C14 tier=thorough bound="NOT (NULL BETWEEN ?2 AND ?3), NOT (?1 BETWEEN NULL AND ?3) as row filters" outside="text; NaN; the select-list value" timeout=3600 mem=24
vt_proof_pred! { unwind = 4; fn c14_between_more_c() {
    between_case([0, 1, 1], false, true); between_case([1, 0, 1], false, true);
    kani::cover!(true, "w:reached_end");
}}


fn is_null_case(kind: u8, negated: bool, under_not: bool) {
    let (x, px) = mk(kind);
    let params = ManuallyDrop::new([px]);
    let p1 = P!(1);
    let e = Expr::IsNull { expr: &p1, negated };
    let isnull = matches!(x, V::Null);
    let t = Some(if negated { !isnull } else { isnull });
    if under_not {
        let n = Expr::UnaryOp { op: UnaryOperator::Not, expr: &e };
        check_filter!(&n, &*params, r_not(t), "role=not_is_null_row_returned_iff_true");
    } else {
        check!(&e, &*params, t, "role=is_null_row_returned_iff_true", "role=is_null_value_is_two_valued");
    }
}

// @vt prop=C14 tier=quick bound="?1 IS NULL / ?1 IS NOT NULL (row filter and select-list value) for ?1 NULL and any INTEGER; NOT (?1 IS NULL) for both" outside="text; FLOAT (thorough)" timeout=1800 mem=16
vt_proof_pred! { unwind = 4; fn c14_is_null() {
    is_null_case(0, false, false); is_null_case(1, false, false); is_null_case(0, true, false); is_null_case(1, true, false); is_null_case(0, false, true); is_null_case(1, false, true);
    kani::cover!(true, "w:reached_end");
}}

// @vt prop=C14 tier=thorough bound="?1 IS [NOT] NULL and NOT (?1 IS [NOT] NULL) for any FLOAT; NOT (?1 IS NOT NULL) for NULL / INTEGER" outside="text" timeout=3600 mem=32
vt_proof_pred! { unwind = 4; fn c14_is_null_float() {
    is_null_case(2, false, false); is_null_case(2, true, false); is_null_case(2, false, true); is_null_case(0, true, true); is_null_case(1, true, true);
    kani::cover!(true, "w:reached_end");
}}

// ---- LIKE. `CompiledPredicate::like_match` (hook `predicate::verif_hooks::like_match`; the method does not use the
// predicate's state) against the textbook recursive definition: `%` any run of characters, `_` exactly one, anything else
// itself. Through `evaluate(Expr::Like)` the matcher indexes heap strings at solver-chosen positions and the solver ran out
// of 16 GB for 2-byte strings; called on stack arrays it is decided in seconds.
use turdb::sql::predicate::verif_hooks as ph;
fn any_ascii() -> u8 { let b: u8 = kani::any(); kani::assume(b < 0x80); b }
fn r_like(t: &[u8], p: &[u8]) -> bool {
    if p.is_empty() { return t.is_empty(); }
    if p[0] == b'%' { return r_like(t, &p[1..]) || (!t.is_empty() && r_like(&t[1..], p)); }
    !t.is_empty() && (p[0] == b'_' || p[0] == t[0]) && r_like(&t[1..], &p[1..])
}
fn like_shape<const TL: usize, const PL: usize>() {
    let mut t = [0u8; TL]; let mut p = [0u8; PL];
    let mut i = 0; while i < TL { t[i] = any_ascii(); i += 1; }
    let mut i = 0; while i < PL { p[i] = any_ascii(); i += 1; }
    let (ts, ps) = unsafe { (core::str::from_utf8_unchecked(&t), core::str::from_utf8_unchecked(&p)) };
    assert!(ph::like_match(ts, ps, false) == r_like(&t, &p), "role=like_matches_the_sql_definition");
}

// @vt prop=C14 tier=quick bound="text LIKE pattern for every ASCII text of 0..=3 bytes and every ASCII pattern of 0..=3 bytes (all mixes of %, _ and literals; text may itself contain % or _)" outside="longer strings; non-ASCII text (the matcher works per byte); ILIKE (c14_ilike); ESCAPE (ignored by the evaluator); NULL operands" timeout=1800 mem=16
vt_proof! { unwind = 20; fn c14_like_matcher() {
    like_shape::<0, 0>(); like_shape::<0, 1>(); like_shape::<0, 2>(); like_shape::<1, 0>();
    like_shape::<1, 1>(); like_shape::<1, 2>(); like_shape::<1, 3>();
    like_shape::<2, 1>(); like_shape::<2, 2>(); like_shape::<2, 3>();
    like_shape::<3, 1>(); like_shape::<3, 2>(); like_shape::<3, 3>();
    kani::cover!(true, "w:reached_end");
}}

fn r_ilike(t: &[u8], p: &[u8]) -> bool {
    if p.is_empty() { return t.is_empty(); }
    if p[0] == b'%' { return r_ilike(t, &p[1..]) || (!t.is_empty() && r_ilike(&t[1..], p)); }
    !t.is_empty() && (p[0] == b'_' || p[0].to_ascii_lowercase() == t[0].to_ascii_lowercase()) && r_ilike(&t[1..], &p[1..])
}
fn ilike_shape<const TL: usize, const PL: usize>() {
    let mut t = [0u8; TL]; let mut p = [0u8; PL];
    let mut i = 0; while i < TL { t[i] = any_ascii(); i += 1; }
    let mut i = 0; while i < PL { p[i] = any_ascii(); i += 1; }
    let (ts, ps) = unsafe { (core::str::from_utf8_unchecked(&t), core::str::from_utf8_unchecked(&p)) };
    assert!(ph::like_match(ts, ps, true) == r_ilike(&t, &p), "role=ilike_matches_the_sql_definition");
}

// @vt prop=C14 tier=quick bound="text ILIKE pattern (ASCII case-insensitive) for every ASCII text of 0..=3 bytes and pattern of 0..=3 bytes (shapes 1x1, 2x2, 3x2, 2x3, 3x3, 0x1, 1x0)" outside="longer strings; non-ASCII case folding; ESCAPE" timeout=1800 mem=16
vt_proof! { unwind = 20; fn c14_ilike_matcher() {
    ilike_shape::<0, 1>(); ilike_shape::<1, 0>(); ilike_shape::<1, 1>(); ilike_shape::<2, 2>();
    ilike_shape::<3, 2>(); ilike_shape::<2, 3>(); ilike_shape::<3, 3>();
    kani::cover!(true, "w:reached_end");
}}

/// LIKE with a NULL operand is NULL: the row is not returned, neither by `NOT LIKE` nor under NOT
fn like_null_case(null_left: bool, negated: bool, wrap_not: bool) {
    let c = any_ascii();
    let mut s = String::with_capacity(1); s.push(c as char);
    let params = ManuallyDrop::new(if null_left { [OwnedValue::Null, OwnedValue::Text(s)] } else { [OwnedValue::Text(s), OwnedValue::Null] });
    let (p1, p2) = (P!(1), P!(2));
    let e = Expr::Like { expr: &p1, negated, pattern: &p2, escape: None, case_insensitive: false };
    if wrap_not {
        let n = Expr::UnaryOp { op: UnaryOperator::Not, expr: &e };
        check_filter!(&n, &*params, None, "role=like_with_null_operand_is_null");
    } else {
        check_filter!(&e, &*params, None, "role=like_with_null_operand_is_null");
    }
}
// @vt prop=C14 tier=quick bound="NULL LIKE ?2, ?1 NOT LIKE NULL, NOT (?1 LIKE NULL) as row filters; the non-NULL operand any 1-byte ASCII text" outside="the matcher itself (c14_like_matcher)" timeout=1800 mem=16
vt_proof_pred! { unwind = 4; fn c14_like_null() {
    like_null_case(true, false, false); like_null_case(false, true, false); like_null_case(false, false, true);
    kani::cover!(true, "w:reached_end");
}}
