//! C14 — WHERE filtering follows SQL three-valued logic: `CompiledPredicate::evaluate` (the row filter) returns a row
//! iff the predicate is TRUE; `evaluate_to_value` (select list) yields the same TRUE/FALSE/NULL.
//! Expression trees are built directly from `turdb::sql::ast` nodes (what the parser produces, without the parser);
//! operand values enter as bound parameters (`?1 .. ?4`), each NULL, any INTEGER or any non-NaN FLOAT.
use core::cmp::Ordering;
use core::mem::ManuallyDrop;
use turdb::sql::ast::{BinaryOperator as B, Expr, Literal, ParameterRef, UnaryOperator};
use turdb::sql::executor::ExecutorRow;
use turdb::sql::predicate::CompiledPredicate;
use turdb::types::{OwnedValue, Value};

/// Reference value and SQL three-valued logic (the trusted base of this module).
#[derive(Clone, Copy)]
pub enum V { Null, Int(i64), Float(f64) }
pub type T = Option<bool>; // None = NULL (unknown)

pub fn r_cmp(a: V, b: V) -> Option<Ordering> {
    match (a, b) {
        (V::Null, _) | (_, V::Null) => None,
        (V::Int(x), V::Int(y)) => Some(x.cmp(&y)),
        (V::Int(x), V::Float(y)) => (x as f64).partial_cmp(&y),
        (V::Float(x), V::Int(y)) => x.partial_cmp(&(y as f64)),
        (V::Float(x), V::Float(y)) => x.partial_cmp(&y),
    }
}
pub fn r_op(op: u8, a: V, b: V) -> T {
    let o = r_cmp(a, b)?;
    Some(match op { 0 => o == Ordering::Equal, 1 => o != Ordering::Equal, 2 => o == Ordering::Less, 3 => o != Ordering::Greater, 4 => o == Ordering::Greater, _ => o != Ordering::Less })
}
pub fn r_not(t: T) -> T { t.map(|b| !b) }
pub fn r_and(a: T, b: T) -> T { match (a, b) { (Some(false), _) | (_, Some(false)) => Some(false), (Some(true), Some(true)) => Some(true), _ => None } }
pub fn r_or(a: T, b: T) -> T { match (a, b) { (Some(true), _) | (_, Some(true)) => Some(true), (Some(false), Some(false)) => Some(false), _ => None } }
pub fn r_in2(x: V, a: V, b: V) -> T { r_or(r_op(0, x, a), r_op(0, x, b)) }
pub fn r_between(x: V, lo: V, hi: V) -> T { r_and(r_op(5, x, lo), r_op(3, x, hi)) }

fn op_of(k: u8) -> B { match k { 0 => B::Eq, 1 => B::NotEq, 2 => B::Lt, 3 => B::LtEq, 4 => B::Gt, _ => B::GtEq } }

/// kinds: 0 = NULL, 1 = INTEGER, 2 = FLOAT (concrete per call so that only that arm of the evaluator is explored)
fn mk(kind: u8) -> (V, OwnedValue) {
    match kind {
        0 => (V::Null, OwnedValue::Null),
        1 => { let x: i64 = kani::any(); (V::Int(x), OwnedValue::Int(x)) }
        _ => {
            let f: f64 = kani::any(); kani::assume(!f.is_nan());
            (V::Float(f), OwnedValue::Float(f))
        }
    }
}
/// mixed INTEGER/FLOAT comparisons are claimed where the INTEGER is exactly representable as a double
fn mixed_ok(a: V, b: V) -> bool {
    let small = |x: i64| x >= -(1i64 << 53) && x <= (1i64 << 53);
    match (a, b) { (V::Int(x), V::Float(_)) | (V::Float(_), V::Int(x)) => small(x), _ => true }
}

/// filter path only: `CompiledPredicate::evaluate`
macro_rules! check_filter { ($expr:expr, $params:expr, $expect:expr, $fr:literal) => {{
    let expect: T = $expect;
    let pred = ManuallyDrop::new(CompiledPredicate::with_params_hashmap($expr, hashbrown::HashMap::new(), $params, 0));
    let vals: [Value<'_>; 0] = [];
    let row = ExecutorRow::new(&vals);
    let got = pred.evaluate(&row);
    assert!(got == (expect == Some(true)), $fr);
}}}
/// filter path and select-list path (`evaluate_to_value`)
macro_rules! check { ($expr:expr, $params:expr, $expect:expr, $fr:literal, $vr:literal) => {{
    let expect: T = $expect;
    let pred = ManuallyDrop::new(CompiledPredicate::with_params_hashmap($expr, hashbrown::HashMap::new(), $params, 0));
    let vals: [Value<'_>; 0] = [];
    let row = ExecutorRow::new(&vals);
    let got = pred.evaluate(&row);
    assert!(got == (expect == Some(true)), $fr);
    let v = ManuallyDrop::new(pred.evaluate_to_value(&row));
    let ok = match (&*v, expect) {
        (Some(Value::Int(n)), Some(b)) => (*n != 0) == b && (*n == 0 || *n == 1),
        (Some(Value::Null), None) | (None, None) => true,
        _ => false,
    };
    assert!(ok, $vr);
}}}

macro_rules! P { ($n:expr) => { Expr::Parameter(ParameterRef::Positional($n)) } }

/// `?1 op ?2` (optionally under NOT) for one concrete pair of operand kinds and one concrete operator
/// (a symbolic operator would make every arm of `eval_binary_op` live: JSON, arrays, vectors, ...).
fn cmp_case(ka: u8, kb: u8, k: u8, negate: bool) {
    let (a, pa) = mk(ka); let (b, pb) = mk(kb);
    kani::assume(mixed_ok(a, b));
    let params = ManuallyDrop::new([pa, pb]);
    let (l, r) = (P!(1), P!(2));
    let e = Expr::BinaryOp { left: &l, op: op_of(k), right: &r };
    let want = r_op(k, a, b);
    if negate {
        let n = Expr::UnaryOp { op: UnaryOperator::Not, expr: &e };
        check_filter!(&n, &*params, r_not(want), "role=not_comparison_row_returned_iff_true");
    } else {
        check_filter!(&e, &*params, want, "role=comparison_row_returned_iff_true");
    }
}
fn cmp_all_ops(ka: u8, kb: u8, negate: bool) {
    cmp_case(ka, kb, 0, negate); cmp_case(ka, kb, 1, negate); cmp_case(ka, kb, 2, negate);
    cmp_case(ka, kb, 3, negate); cmp_case(ka, kb, 4, negate); cmp_case(ka, kb, 5, negate);
}
/// `=`, `<`, `>=` pin down the ordering the evaluator computed for a pair of kinds (the operator table itself is covered for all six operators by the *_int_int harnesses)
fn cmp_three_ops(ka: u8, kb: u8, negate: bool) { cmp_case(ka, kb, 0, negate); cmp_case(ka, kb, 2, negate); cmp_case(ka, kb, 5, negate); }

// @vt prop=C14 tier=quick bound="?1 op ?2 as a row filter for op in {=,<>,<,<=,>,>=}; both operands any INTEGER" outside="text operands; NaN; columns (resolved through a hash map of names) and literals (parsed from text); the select-list value of a comparison (evaluate_to_value -> eval_binary_op: one check ran out of 12 GB)" timeout=1800 mem=16
vt_proof! { unwind = 4; fn c14_cmp_int_int() { cmp_all_ops(1, 1, false); kani::cover!(true, "w:reached_end"); }}
// @vt prop=C14 tier=quick bound="?1 op ?2 as a row filter for the six comparison operators; both operands any non-NaN FLOAT" outside="text operands; NaN; columns (resolved through a hash map of names) and literals (parsed from text); the select-list value of a comparison (evaluate_to_value -> eval_binary_op: one check ran out of 12 GB)" timeout=1800 mem=16
vt_proof! { unwind = 4; fn c14_cmp_float_float() { cmp_all_ops(2, 2, false); kani::cover!(true, "w:reached_end"); }}
// @vt prop=C14 tier=quick bound="INTEGER op FLOAT as a row filter for the six comparison operators; |INTEGER| <= 2^53, any non-NaN FLOAT" outside="|INTEGER| > 2^53 against FLOAT (the evaluator compares through f64); text operands; NaN; columns (resolved through a hash map of names) and literals (parsed from text); the select-list value of a comparison (evaluate_to_value -> eval_binary_op: one check ran out of 12 GB)" timeout=1800 mem=16
vt_proof! { unwind = 4; fn c14_cmp_int_float() { cmp_all_ops(1, 2, false); kani::cover!(true, "w:reached_end"); }}
// @vt prop=C14 tier=quick bound="FLOAT op INTEGER as a row filter for the six comparison operators; |INTEGER| <= 2^53, any non-NaN FLOAT" outside="|INTEGER| > 2^53 against FLOAT; text operands; NaN; columns (resolved through a hash map of names) and literals (parsed from text); the select-list value of a comparison (evaluate_to_value -> eval_binary_op: one check ran out of 12 GB)" timeout=1800 mem=16
vt_proof! { unwind = 4; fn c14_cmp_float_int() { cmp_all_ops(2, 1, false); kani::cover!(true, "w:reached_end"); }}
// @vt prop=C14 tier=quick bound="NULL op x as a row filter, x any INTEGER or any FLOAT, op in {=,<,>=}" outside="text operands; NaN; columns (resolved through a hash map of names) and literals (parsed from text); the select-list value of a comparison (evaluate_to_value -> eval_binary_op: one check ran out of 12 GB)" timeout=1800 mem=16
vt_proof! { unwind = 4; fn c14_cmp_null_left() { cmp_three_ops(0, 1, false); cmp_three_ops(0, 2, false); kani::cover!(true, "w:reached_end"); }}
// @vt prop=C14 tier=quick bound="x op NULL as a row filter, x any INTEGER or any FLOAT, op in {=,<,>=}" outside="text operands; NaN; columns (resolved through a hash map of names) and literals (parsed from text); the select-list value of a comparison (evaluate_to_value -> eval_binary_op: one check ran out of 12 GB)" timeout=1800 mem=16
vt_proof! { unwind = 4; fn c14_cmp_null_right() { cmp_three_ops(1, 0, false); cmp_three_ops(2, 0, false); kani::cover!(true, "w:reached_end"); }}
// @vt prop=C14 tier=quick bound="NULL op NULL as a row filter for the six comparison operators" outside="text operands; NaN; columns (resolved through a hash map of names) and literals (parsed from text); the select-list value of a comparison (evaluate_to_value -> eval_binary_op: one check ran out of 12 GB)" timeout=1800 mem=16
vt_proof! { unwind = 4; fn c14_cmp_null_null() { cmp_all_ops(0, 0, false); kani::cover!(true, "w:reached_end"); }}
// @vt prop=C14 tier=quick bound="NOT (?1 op ?2) as a row filter for the six comparison operators; both operands any INTEGER" outside="text operands; NaN; columns (resolved through a hash map of names) and literals (parsed from text); the select-list value of a comparison (evaluate_to_value -> eval_binary_op: one check ran out of 12 GB)" timeout=1800 mem=16
vt_proof! { unwind = 4; fn c14_not_cmp_int_int() { cmp_all_ops(1, 1, true); kani::cover!(true, "w:reached_end"); }}
// @vt prop=C14 tier=quick bound="NOT (?1 op ?2) as a row filter, op in {=,<,>=}; FLOAT with FLOAT and INTEGER (|x| <= 2^53) with FLOAT" outside="text operands; NaN; columns (resolved through a hash map of names) and literals (parsed from text); the select-list value of a comparison (evaluate_to_value -> eval_binary_op: one check ran out of 12 GB)" timeout=1800 mem=16
vt_proof! { unwind = 4; fn c14_not_cmp_float() { cmp_three_ops(2, 2, true); cmp_three_ops(1, 2, true); kani::cover!(true, "w:reached_end"); }}
// @vt prop=C14 tier=quick bound="NOT (?1 op ?2) as a row filter where at least one operand is NULL: NULL/INTEGER and INTEGER/NULL with {=,<}, NULL/NULL with {=,<>}" outside="text operands; NaN; columns (resolved through a hash map of names) and literals (parsed from text); the select-list value of a comparison (evaluate_to_value -> eval_binary_op: one check ran out of 12 GB)" timeout=1800 mem=16
vt_proof! { unwind = 4; fn c14_not_cmp_with_null() {
    cmp_case(0, 1, 0, true); cmp_case(0, 1, 2, true); cmp_case(1, 0, 0, true); cmp_case(1, 0, 2, true); cmp_case(0, 0, 0, true); cmp_case(0, 0, 1, true);
    kani::cover!(true, "w:reached_end");
}}

/// `(?1 = ?2) AND|OR (?3 < ?4)`, optionally under NOT; operand kinds NULL or INTEGER.
fn andor_case(kinds: [u8; 4], is_and: bool, negate: bool) {
    let (a, pa) = mk(kinds[0]); let (b, pb) = mk(kinds[1]); let (c, pc) = mk(kinds[2]); let (d, pd) = mk(kinds[3]);
    let params = ManuallyDrop::new([pa, pb, pc, pd]);
    let (p1, p2, p3, p4) = (P!(1), P!(2), P!(3), P!(4));
    let e1 = Expr::BinaryOp { left: &p1, op: B::Eq, right: &p2 };
    let e2 = Expr::BinaryOp { left: &p3, op: B::Lt, right: &p4 };
    let (t1, t2) = (r_op(0, a, b), r_op(2, c, d));
    if is_and {
        let e = Expr::BinaryOp { left: &e1, op: B::And, right: &e2 };
        let want = r_and(t1, t2);
        if negate {
            let n = Expr::UnaryOp { op: UnaryOperator::Not, expr: &e };
            check_filter!(&n, &*params, r_not(want), "role=not_and_row_returned_iff_true");
        } else {
            check_filter!(&e, &*params, want, "role=and_row_returned_iff_true");
        }
    } else {
        let e = Expr::BinaryOp { left: &e1, op: B::Or, right: &e2 };
        let want = r_or(t1, t2);
        if negate {
            let n = Expr::UnaryOp { op: UnaryOperator::Not, expr: &e };
            check_filter!(&n, &*params, r_not(want), "role=not_or_row_returned_iff_true");
        } else {
            check_filter!(&e, &*params, want, "role=or_row_returned_iff_true");
        }
    }
}

// @vt prop=C14 tier=quick bound="(?1 = ?2) AND (?3 < ?4) as a row filter; ?2, ?4 any INTEGER; ?1, ?3 each NULL or any INTEGER (4 combinations): every TRUE/FALSE/NULL pair of the two sides" outside="FLOAT/text operands here; deeper nesting; the select-list value" timeout=1800 mem=16
vt_proof! { unwind = 4; fn c14_and() {
    andor_case([1, 1, 1, 1], true, false); andor_case([0, 1, 1, 1], true, false); andor_case([1, 1, 0, 1], true, false); andor_case([0, 1, 0, 1], true, false);
    kani::cover!(true, "w:reached_end");
}}
// @vt prop=C14 tier=quick bound="(?1 = ?2) OR (?3 < ?4) as a row filter, operands as c14_and" outside="FLOAT/text operands here; deeper nesting; the select-list value" timeout=1800 mem=16
vt_proof! { unwind = 4; fn c14_or() {
    andor_case([1, 1, 1, 1], false, false); andor_case([0, 1, 1, 1], false, false); andor_case([1, 1, 0, 1], false, false); andor_case([0, 1, 0, 1], false, false);
    kani::cover!(true, "w:reached_end");
}}
// @vt prop=C14 tier=quick bound="NOT ((?1 = ?2) AND (?3 < ?4)) as a row filter, operands as c14_and" outside="FLOAT/text operands here; deeper nesting; the select-list value" timeout=1800 mem=16
vt_proof! { unwind = 4; fn c14_not_and() {
    andor_case([1, 1, 1, 1], true, true); andor_case([0, 1, 1, 1], true, true); andor_case([1, 1, 0, 1], true, true); andor_case([0, 1, 0, 1], true, true);
    kani::cover!(true, "w:reached_end");
}}
// @vt prop=C14 tier=quick bound="NOT ((?1 = ?2) OR (?3 < ?4)) as a row filter, operands as c14_and" outside="FLOAT/text operands here; deeper nesting; the select-list value" timeout=1800 mem=16
vt_proof! { unwind = 4; fn c14_not_or() {
    andor_case([1, 1, 1, 1], false, true); andor_case([0, 1, 1, 1], false, true); andor_case([1, 1, 0, 1], false, true); andor_case([0, 1, 0, 1], false, true);
    kani::cover!(true, "w:reached_end");
}}

/// `?1 [NOT] IN (?2, ?3)`; `wrap_not` puts the whole node under a NOT (TRUE iff the node is FALSE, so that NULL and FALSE
/// are told apart through the filter alone); `both` also checks the select-list value.
fn in_case(kinds: [u8; 3], negated: bool, wrap_not: bool, both: bool) {
    let (x, px) = mk(kinds[0]); let (a, pa) = mk(kinds[1]); let (b, pb) = mk(kinds[2]);
    let params = ManuallyDrop::new([px, pa, pb]);
    let (p1, p2, p3) = (P!(1), P!(2), P!(3));
    let list: [&Expr<'_>; 2] = [&p2, &p3];
    let e = Expr::InList { expr: &p1, negated, list: &list };
    let t = r_in2(x, a, b);
    let t = if negated { r_not(t) } else { t };
    if wrap_not {
        let n = Expr::UnaryOp { op: UnaryOperator::Not, expr: &e };
        check_filter!(&n, &*params, r_not(t), "role=not_of_in_list_row_returned_iff_true");
    } else if both {
        check!(&e, &*params, t, "role=in_list_row_returned_iff_true", "role=in_list_value_is_three_valued");
    } else {
        check_filter!(&e, &*params, t, "role=in_list_row_returned_iff_true");
    }
}

// @vt prop=C14 tier=quick bound="?1 IN (?2, ?3) and ?1 NOT IN (?2, ?3): all three any INTEGER; filter and select-list value" outside="NULL members (c14_in_list_with_null); FLOAT members (IN compares floats with an epsilon); lists longer than 2; text" timeout=1800 mem=16
vt_proof! { unwind = 4; fn c14_in_list_non_null() {
    in_case([1, 1, 1], false, false, true); in_case([1, 1, 1], true, false, true);
    kani::cover!(true, "w:reached_end");
}}
// @vt prop=C14 tier=quick bound="?1 IN (?2, ?3) as a row filter where ?1 and/or list members are NULL (the other operands any INTEGER): 6 kind combinations" outside="as c14_in_list_non_null; the select-list value for these (thorough: c14_in_list_null_value)" timeout=1800 mem=16
vt_proof! { unwind = 4; fn c14_in_list_with_null() {
    in_case([1, 0, 1], false, false, false); in_case([1, 1, 0], false, false, false); in_case([1, 0, 0], false, false, false);
    in_case([0, 1, 1], false, false, false); in_case([0, 0, 1], false, false, false); in_case([0, 0, 0], false, false, false);
    kani::cover!(true, "w:reached_end");
}}
// @vt prop=C14 tier=quick bound="NOT (?1 IN (?2, ?3)) as a row filter: (INTEGER, NULL, INTEGER), (INTEGER, INTEGER, NULL), (NULL, INTEGER, INTEGER), all INTEGER" outside="as c14_in_list_non_null" timeout=1800 mem=16
vt_proof! { unwind = 4; fn c14_not_of_in_list() {
    in_case([1, 0, 1], false, true, false); in_case([1, 1, 0], false, true, false); in_case([0, 1, 1], false, true, false); in_case([1, 1, 1], false, true, false);
    kani::cover!(true, "w:reached_end");
}}
// @vt prop=C14 tier=quick bound="?1 NOT IN (?2, ?3) where ?1 and/or list members are NULL (the other operands any INTEGER): 6 kind combinations (filter path)" outside="as c14_in_list_non_null" timeout=1800 mem=16
vt_proof! { unwind = 4; fn c14_not_in_list_with_null() {
    in_case([1, 0, 1], true, false, false); in_case([1, 1, 0], true, false, false); in_case([1, 0, 0], true, false, false);
    in_case([0, 1, 1], true, false, false); in_case([0, 0, 1], true, false, false); in_case([0, 0, 0], true, false, false);
    kani::cover!(true, "w:reached_end");
}}
// @vt prop=C14 tier=thorough bound="select-list value of ?1 [NOT] IN (?2, NULL) and NULL IN (?2, ?3): INTEGER operands" outside="as c14_in_list_non_null" timeout=3600 mem=32
vt_proof! { unwind = 4; fn c14_in_list_null_value() {
    in_case([1, 1, 0], false, false, true); in_case([1, 1, 0], true, false, true); in_case([0, 1, 1], false, false, true);
    kani::cover!(true, "w:reached_end");
}}

/// `?1 [NOT] BETWEEN ?2 AND ?3`
fn between_case(kinds: [u8; 3], negated: bool) { between_case2(kinds, negated, false) }
fn between_case2(kinds: [u8; 3], negated: bool, wrap_not: bool) {
    let (x, px) = mk(kinds[0]); let (lo, pl) = mk(kinds[1]); let (hi, ph) = mk(kinds[2]);
    kani::assume(mixed_ok(x, lo) && mixed_ok(x, hi));
    let params = ManuallyDrop::new([px, pl, ph]);
    let (p1, p2, p3) = (P!(1), P!(2), P!(3));
    let e = Expr::Between { expr: &p1, negated, low: &p2, high: &p3 };
    let t = r_between(x, lo, hi);
    if wrap_not {
        let t = if negated { r_not(t) } else { t };
        let n = Expr::UnaryOp { op: UnaryOperator::Not, expr: &e };
        check_filter!(&n, &*params, r_not(t), "role=not_of_between_row_returned_iff_true");
    } else if negated {
        check_filter!(&e, &*params, r_not(t), "role=not_between_row_returned_iff_true");
    } else {
        check_filter!(&e, &*params, t, "role=between_row_returned_iff_true");
    }
}

// @vt prop=C14 tier=quick bound="?1 BETWEEN ?2 AND ?3 and ?1 NOT BETWEEN ?2 AND ?3 as a row filter: all INTEGER; all FLOAT; INTEGER (|x| <= 2^53) between FLOATs" outside="text; NaN; the select-list value" timeout=1800 mem=16
vt_proof! { unwind = 4; fn c14_between_non_null() {
    between_case([1, 1, 1], false); between_case([2, 2, 2], false); between_case([1, 2, 2], false);
    between_case([1, 1, 1], true); between_case([2, 2, 2], true); between_case([1, 2, 2], true);
    kani::cover!(true, "w:reached_end");
}}
// @vt prop=C14 tier=quick bound="?1 BETWEEN ?2 AND ?3 as a row filter with NULL operands: (x,lo,hi) kinds in {(I,N,I),(I,I,N),(I,N,N),(N,I,I),(N,N,N)}, the others any INTEGER" outside="text; the select-list value" timeout=1800 mem=16
vt_proof! { unwind = 4; fn c14_between_with_null() {
    between_case([1, 0, 1], false); between_case([1, 1, 0], false); between_case([1, 0, 0], false); between_case([0, 1, 1], false); between_case([0, 0, 0], false);
    kani::cover!(true, "w:reached_end");
}}
// @vt prop=C14 tier=quick bound="?1 NOT BETWEEN ?2 AND ?3 as a row filter with NULL operands (same 5 kind combinations)" outside="text; the select-list value" timeout=1800 mem=16
vt_proof! { unwind = 4; fn c14_not_between_with_null() {
    between_case([1, 0, 1], true); between_case([1, 1, 0], true); between_case([1, 0, 0], true); between_case([0, 1, 1], true); between_case([0, 0, 0], true);
    kani::cover!(true, "w:reached_end");
}}
// @vt prop=C14 tier=quick bound="NOT (?1 BETWEEN ?2 AND ?3) as a row filter: (I,N,I), (I,I,N), (N,I,I), all INTEGER" outside="text; the select-list value" timeout=1800 mem=16
vt_proof! { unwind = 4; fn c14_not_of_between() {
    between_case2([1, 0, 1], false, true); between_case2([1, 1, 0], false, true); between_case2([0, 1, 1], false, true); between_case2([1, 1, 1], false, true);
    kani::cover!(true, "w:reached_end");
}}

fn is_null_case(kind: u8, negated: bool, under_not: bool) {
    let (x, px) = mk(kind);
    let params = ManuallyDrop::new([px]);
    let p1 = P!(1);
    let e = Expr::IsNull { expr: &p1, negated };
    let isnull = matches!(x, V::Null);
    let t = Some(if negated { !isnull } else { isnull });
    if under_not {
        let n = Expr::UnaryOp { op: UnaryOperator::Not, expr: &e };
        check!(&n, &*params, r_not(t), "role=not_is_null_row_returned_iff_true", "role=not_is_null_value_is_two_valued");
    } else {
        check!(&e, &*params, t, "role=is_null_row_returned_iff_true", "role=is_null_value_is_two_valued");
    }
}
// @vt prop=C14 tier=quick bound="?1 IS NULL / ?1 IS NOT NULL, alone and under NOT: ?1 NULL, any INTEGER or any FLOAT" outside="text" timeout=1800 mem=16
vt_proof! { unwind = 4; fn c14_is_null() {
    let mut kind = 0u8;
    while kind < 3 {
        is_null_case(kind, false, false); is_null_case(kind, true, false);
        is_null_case(kind, false, true); is_null_case(kind, true, true);
        kind += 1;
    }
    kani::cover!(true, "w:reached_end");
}}
