//! C08 — isolation of uncommitted changes (kernel level): the MVCC record header codec, the visibility rule, the
//! write-conflict rule (first committer wins) and the version-chain walk, against a snapshot-isolation oracle.
//! The whole-system half of C08 (two handles, real BEGIN/COMMIT, the scan path) is not decided here.
use turdb::mvcc::{RecordHeader, VersionChainReader, VisibilityResult, WriteCheckResult};

fn any_header() -> RecordHeader { RecordHeader { flags: kani::any(), txn_id: kani::any(), prev_version: kani::any() } }

// @vt prop=C08 tier=quick bound="every record header (any flags byte, any 64-bit txn id, any 64-bit version pointer); every undo pointer with page id < 2^48" outside="-" timeout=1800
vt_proof! { unwind = 19; fn c08_header_and_pointer_codec() {
    let h = any_header();
    let mut buf = [0u8; 20];
    let tail: [u8; 3] = kani::any(); buf[17] = tail[0]; buf[18] = tail[1]; buf[19] = tail[2];
    h.write_to(&mut buf);
    assert!(RecordHeader::from_bytes(&buf) == h, "role=record_header_roundtrip");
    assert!(buf[17] == tail[0] && buf[18] == tail[1] && buf[19] == tail[2], "role=header_write_touches_only_17_bytes");
    let page: u64 = kani::any(); let off: u16 = kani::any(); kani::assume(page < (1u64 << 48));
    assert!(RecordHeader::decode_ptr(RecordHeader::encode_ptr(page, off)) == (page, off), "role=undo_pointer_roundtrip");
    kani::cover!(h.is_locked() && h.is_deleted(), "w:locked_and_deleted");
}}

// @vt prop=C08 tier=quick bound="every header x every reader timestamp: visibility rule and write-conflict rule" outside="the scan path that applies the rule (needs real storage)" timeout=1800
vt_proof! { unwind = 3; fn c08_visibility_and_write_rules() {
    let h = any_header();
    let read_ts: u64 = kani::any();
    let v = h.is_visible_to(read_ts);
    // snapshot-isolation oracle: an uncommitted (locked) version is invisible to every snapshot; a committed version is
    // visible iff it was committed at or before the snapshot and is not a delete marker
    if h.is_locked() { assert!(v == VisibilityResult::Invisible, "role=uncommitted_version_invisible_to_every_reader"); }
    else if h.txn_id > read_ts { assert!(v == VisibilityResult::Invisible, "role=version_committed_after_snapshot_invisible"); }
    else if h.is_deleted() { assert!(v == VisibilityResult::Deleted, "role=committed_delete_hides_row"); }
    else { assert!(v == VisibilityResult::Visible, "role=committed_version_visible"); }
    // with a commit log: a locked version whose writer has committed at c is treated as committed at c
    let committed: bool = kani::any(); let cts: u64 = kani::any();
    let w = h.is_visible_with_clog(read_ts, |_t| if committed { Some(cts) } else { None });
    if h.is_locked() && !committed { assert!(w == VisibilityResult::Invisible, "role=uncommitted_version_invisible_to_every_reader"); }
    if h.is_locked() && committed && cts > read_ts { assert!(w == VisibilityResult::Invisible, "role=version_committed_after_snapshot_invisible"); }
    // writes: first committer wins
    let (wtxn, wread): (u64, u64) = (kani::any(), kani::any());
    let c = h.can_write(wtxn, wread);
    if h.is_locked() && h.txn_id != wtxn { assert!(c == WriteCheckResult::LockedByOther, "role=row_locked_by_other_transaction_cannot_be_written"); }
    if !h.is_locked() && h.txn_id > wread { assert!(c == WriteCheckResult::ConcurrentModification, "role=no_lost_update_first_committer_wins"); }
    if c == WriteCheckResult::CanWrite { assert!((h.is_locked() && h.txn_id == wtxn) || (!h.is_locked() && h.txn_id <= wread), "role=can_write_only_own_or_snapshot_visible_version"); }
    kani::cover!(c == WriteCheckResult::ConcurrentModification, "w:write_conflict");
}}

// @vt prop=C08 tier=quick bound="version chains of length 1..=3 (current version + up to 2 undo versions) with arbitrary headers, arbitrary reader timestamp" outside="longer chains" timeout=1800
vt_proof! { unwind = 5; fn c08_version_chain_walk() {
    let h0 = any_header(); let h1 = any_header(); let h2 = any_header();
    let read_ts: u64 = kani::any();
    let mut rec = [0u8; 18]; h0.write_to(&mut rec); rec[17] = 0xA0;
    static D1: [u8; 1] = [0xA1]; static D2: [u8; 1] = [0xA2];
    let p1 = h0.prev_version; let p2 = h1.prev_version;
    // an acyclic chain: distinct undo slots, the oldest version points to no further version we hold
    kani::assume(p1 != p2 && h2.prev_version != p1 && h2.prev_version != p2);
    let reader = VersionChainReader::new(&rec, read_ts);
    let r: Result<Option<turdb::mvcc::VisibleVersion>, ()> = reader.find_visible_version(|page, off| {
        let ptr = RecordHeader::encode_ptr(page, off);
        if ptr == (p1 & 0xFFFF_FFFF_FFFF_FFFF) && RecordHeader::decode_ptr(p1) == (page, off) { Ok(Some((h1, &D1[..]))) }
        else if RecordHeader::decode_ptr(p2) == (page, off) { Ok(Some((h2, &D2[..]))) } else { Ok(None) }
    });
    // oracle: newest-to-oldest, the first version whose visibility is not Invisible decides
    let vis = |h: &RecordHeader| h.is_visible_to(read_ts);
    let want: Option<u8> = match vis(&h0) {
        VisibilityResult::Visible => Some(0xA0), VisibilityResult::Deleted => None,
        VisibilityResult::Invisible => if !h0.has_prev_version() { None } else { match vis(&h1) {
            VisibilityResult::Visible => Some(0xA1), VisibilityResult::Deleted => None,
            VisibilityResult::Invisible => if !h1.has_prev_version() { None } else { match vis(&h2) { VisibilityResult::Visible => Some(0xA2), _ => None } } } } };
    match r { Ok(Some(v)) => { assert!(want == Some(v.data[0]), "role=chain_walk_returns_newest_visible_version"); assert!(v.header.is_visible_to(read_ts) == VisibilityResult::Visible, "role=returned_version_is_visible_to_reader"); }
              Ok(None) => assert!(want.is_none(), "role=chain_walk_finds_existing_visible_version"), Err(_) => assert!(false, "role=chain_walk_ok") }
    kani::cover!(want == Some(0xA2), "w:oldest_version_visible");
    kani::cover!(want == Some(0xA1), "w:middle_version_visible");
}}
