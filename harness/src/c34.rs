//! C34 — the freelist conserves pages (src/storage/freelist.rs), small-page build (TRUNK_MAX_ENTRIES = 122).
use turdb::storage::{Freelist, Storage, PAGE_SIZE, TRUNK_MAX_ENTRIES};

/// Array-backed implementation of the crate's public `Storage` trait (the instantiation of the generic
/// `Freelist::{allocate, release}<S>` that is verified).
#[repr(C, align(16))]
pub struct MemStore<const P: usize> {
    pub pages: [[u8; PAGE_SIZE]; P],
}
impl<const P: usize> Storage for MemStore<P> {
    fn page(&self, n: u32) -> eyre::Result<&[u8]> {
        if (n as usize) < P { Ok(&self.pages[n as usize]) } else { Err(eyre::eyre!("page out of range")) }
    }
    fn page_mut(&mut self, n: u32) -> eyre::Result<&mut [u8]> {
        if (n as usize) < P { Ok(&mut self.pages[n as usize]) } else { Err(eyre::eyre!("page out of range")) }
    }
    fn grow(&mut self, _n: u32) -> eyre::Result<()> { Ok(()) }
    fn page_count(&self) -> u32 { P as u32 }
    fn sync(&self) -> eyre::Result<()> { Ok(()) }
}

/// Stubs for the two zerocopy cast wrappers of `TrunkHeader` (size/alignment validation of the cast): zerocopy's
/// generic layout arithmetic on symbolic addresses made one freelist step run out of 24 GB. The stubs keep the length
/// check and cast directly; Kani still checks the dereference (alignment: the store is 16-aligned, trunk header at +16).
pub fn stub_trunk_from_bytes(data: &[u8]) -> eyre::Result<&turdb::storage::TrunkHeader> {
    eyre::ensure!(data.len() >= 8, "buffer too small for TrunkHeader");
    Ok(unsafe { &*(data.as_ptr() as *const turdb::storage::TrunkHeader) })
}
pub fn stub_trunk_from_bytes_mut(data: &mut [u8]) -> eyre::Result<&mut turdb::storage::TrunkHeader> {
    eyre::ensure!(data.len() >= 8, "buffer too small for TrunkHeader");
    Ok(unsafe { &mut *(data.as_mut_ptr() as *mut turdb::storage::TrunkHeader) })
}

const HDR: usize = 16; // PAGE_HEADER_SIZE
/// 4-page store; pages 2 and 3 (the ones that get released) carry ARBITRARY bytes where a trunk header and its first
/// two entries would live (offsets 16..32) — a used page released to the freelist — the rest is zero. (Fully
/// symbolic 512-byte pages ran out of memory.)
fn store() -> MemStore<4> {
    let mut st = MemStore::<4> { pages: [[0u8; PAGE_SIZE]; 4] };
    let a: [u8; 16] = kani::any(); let b: [u8; 16] = kani::any();
    st.pages[2][HDR..HDR + 16].copy_from_slice(&a); st.pages[3][HDR..HDR + 16].copy_from_slice(&b);
    st
}
fn put32(p: &mut [u8; PAGE_SIZE], at: usize, v: u32) { p[at] = v as u8; p[at + 1] = (v >> 8) as u8; p[at + 2] = (v >> 16) as u8; p[at + 3] = (v >> 24) as u8; }
fn get32(p: &[u8; PAGE_SIZE], at: usize) -> u32 { p[at] as u32 | (p[at + 1] as u32) << 8 | (p[at + 2] as u32) << 16 | (p[at + 3] as u32) << 24 }
/// Writes a trunk header {next, count} and `ents` as its first entries (documented layout: header at 16, entries at 24).
fn put_trunk(p: &mut [u8; PAGE_SIZE], next: u32, count: u32, ents: &[u32]) {
    put32(p, HDR, next); put32(p, HDR + 4, count);
    if ents.len() > 0 { put32(p, HDR + 8, ents[0]); }
    if ents.len() > 1 { put32(p, HDR + 12, ents[1]); }
}
fn alloc_one<const P: usize>(fl: &mut Freelist, st: &mut MemStore<P>) -> Option<Option<u32>> {
    let r = core::mem::ManuallyDrop::new(fl.allocate(st));
    match &*r { Ok(x) => Some(*x), Err(_) => None }
}

// @vt prop=C34 tier=quick feat=sp fs=600 bound="histories from the empty freelist: release a, release b, then allocate until empty (a, b arbitrary distinct pages of a 4-page store with arbitrary prior page contents)" outside="longer histories (see the inductive harnesses); more pages" timeout=1800 mem=16
vt_proof_fl! { unwind = 3; fn c34_release_two_then_drain() {
    let mut st = store();
    let mut fl = Freelist::new();
    let a: u32 = kani::any(); let b: u32 = kani::any();
    kani::assume(a >= 1 && a < 4 && b >= 1 && b < 4 && a != b);
    // concrete page numbers per branch (symbolic page indices into the store are a CBMC blow-up): exhaustive split
    let mut got = [0u32; 3]; let mut n = 0;
    macro_rules! go { ($a:expr, $b:expr) => {{
        let r1 = core::mem::ManuallyDrop::new(fl.release(&mut st, $a)); assert!(r1.is_ok(), "role=release_ok");
        assert!(fl.free_count() == 1, "role=free_count_after_first_release");
        let r2 = core::mem::ManuallyDrop::new(fl.release(&mut st, $b)); assert!(r2.is_ok(), "role=release_ok");
        assert!(fl.free_count() == 2, "role=free_count_counts_released_pages");
        macro_rules! one { () => { match alloc_one(&mut fl, &mut st) { Some(Some(p)) => { got[n] = p; n += 1; } Some(None) => {} None => assert!(false, "role=allocate_does_not_error") } }; }
        one!(); one!(); one!();
        assert!(n == 2, "role=free_count_equals_pages_allocations_return");
        assert!((got[0] == $a && got[1] == $b) || (got[0] == $b && got[1] == $a), "role=allocated_pages_are_exactly_the_released_ones");
        assert!(fl.free_count() == 0 && fl.is_empty(), "role=free_count_zero_after_drain");
    }}; }
    if a == 1 && b == 2 { go!(1, 2) } else if a == 1 && b == 3 { go!(1, 3) } else if a == 2 && b == 1 { go!(2, 1) }
    else if a == 2 && b == 3 { go!(2, 3) } else if a == 3 && b == 1 { go!(3, 1) } else { go!(3, 2) }
    kani::cover!(n == 2, "w:two_pages_came_back");
}}

/// A valid two-trunk chain: head trunk page 1 {count c0, entries e0..}, next trunk page 2 {count c1, entries}, the
/// entries arbitrary distinct page numbers >= 10 (not trunk pages). free_count as the real code maintains it.
fn drain_chain(c0: usize, two: bool, c1: usize) {
    let mut st = store();
    let e: [u32; 4] = kani::any();
    kani::assume(e[0] >= 10 && e[1] >= 10 && e[2] >= 10 && e[3] >= 10);
    kani::assume(e[0] != e[1] && e[0] != e[2] && e[0] != e[3] && e[1] != e[2] && e[1] != e[3] && e[2] != e[3]);
    put_trunk(&mut st.pages[1], if two { 2 } else { 0 }, c0 as u32, &e[..c0]);
    if two { put_trunk(&mut st.pages[2], 0, c1 as u32, &e[2..2 + c1]); }
    let total = c0 + 1 + if two { c1 + 1 } else { 0 };
    let mut fl = Freelist::with_head(1, total as u32);
    let mut got = [0u32; 8]; let mut n = 0;
    macro_rules! one { () => { match alloc_one(&mut fl, &mut st) { Some(Some(p)) => { if n < 8 { got[n] = p; } n += 1; } Some(None) => {} None => assert!(false, "role=allocate_does_not_error") } }; }
    one!(); one!(); one!(); one!(); one!(); one!(); one!();
    assert!(n == total, "role=free_count_equals_pages_allocations_return");
    // every page handed out is one the structure held (an entry or a trunk page), none twice (unrolled: the
    // unwinding bound of these harnesses is kept at 3 because it also bounds the recursion in Freelist::allocate)
    macro_rules! chk { ($i:expr) => { if $i < n {
        let p = got[$i];
        let member = p == 1 || (two && p == 2)
            || (0 < c0 && p == e[0]) || (1 < c0 && p == e[1]) || (two && 0 < c1 && p == e[2]) || (two && 1 < c1 && p == e[3]);
        assert!(member, "role=allocated_page_was_free");
        assert!(!(0 < $i && got[0] == p) && !(1 < $i && got[1] == p) && !(2 < $i && got[2] == p) && !(3 < $i && got[3] == p) && !(4 < $i && got[4] == p), "role=no_page_handed_out_twice");
    } }; }
    chk!(0); chk!(1); chk!(2); chk!(3); chk!(4); chk!(5);
    assert!(fl.free_count() == 0, "role=free_count_zero_after_drain");
}

// @vt prop=C34 tier=quick feat=sp fs=600 bound="drain of ANY valid single trunk with 0..=2 entries (arbitrary distinct entry page numbers)" outside="trunks with more than 2 entries in the drain (the full-trunk boundary is decided in c34_release_step)" timeout=1800 mem=16
vt_proof_fl! { unwind = 3; fn c34_drain_one_trunk() {
    let c0: usize = kani::any(); kani::assume(c0 <= 2);
    kani::cover!(c0 == 0, "w:single_empty_trunk");
    if c0 == 0 { drain_chain(0, false, 0) } else if c0 == 1 { drain_chain(1, false, 0) } else { drain_chain(2, false, 0) }
}}
// @vt prop=C34 tier=quick feat=sp fs=600 bound="drain of ANY valid chain of 2 trunks with 0..=2 and 0..=1 entries (arbitrary distinct entry page numbers)" outside="longer chains; more entries per trunk in the drain" timeout=1800 mem=16
vt_proof_fl! { unwind = 3; fn c34_drain_two_trunks() {
    let c0: usize = kani::any(); let c1: usize = kani::any();
    kani::assume(c0 <= 2 && c1 <= 1);
    kani::cover!(c0 == 0 && c1 == 1, "w:empty_head_trunk_before_nonempty_trunk");
    if c0 == 0 { if c1 == 0 { drain_chain(0, true, 0) } else { drain_chain(0, true, 1) } }
    else if c0 == 1 { if c1 == 0 { drain_chain(1, true, 0) } else { drain_chain(1, true, 1) } }
    else { if c1 == 0 { drain_chain(2, true, 0) } else { drain_chain(2, true, 1) } }
}}

/// One release from a valid state whose head trunk (page 1) holds `c0` entries; page `p` (2 or 3) is released and
/// has ARBITRARY prior contents (a used B-tree page, say).
fn release_step(c0: usize, p: u32) {
    let mut st = store();
    let top: u32 = kani::any(); kani::assume(top >= 10);
    put32(&mut st.pages[1], HDR, 0); put32(&mut st.pages[1], HDR + 4, c0 as u32);
    if c0 > 0 { put32(&mut st.pages[1], HDR + 8 + 4 * (c0 - 1), top); }
    let fc0 = c0 as u32 + 1;
    let mut fl = Freelist::with_head(1, fc0);
    let r = core::mem::ManuallyDrop::new(fl.release(&mut st, p));
    assert!(r.is_ok(), "role=release_ok");
    assert!(fl.free_count() == fc0 + 1, "role=release_adds_exactly_one_free_page");
    if c0 >= TRUNK_MAX_ENTRIES {
        // full head trunk: the released page becomes the new head trunk, empty, linked to the old head
        assert!(fl.head_page() == p, "role=full_trunk_release_makes_new_head");
        assert!(get32(&st.pages[p as usize], HDR) == 1, "role=new_trunk_links_to_old_head");
        assert!(get32(&st.pages[p as usize], HDR + 4) == 0, "role=new_trunk_starts_empty");
        assert!(get32(&st.pages[1], HDR + 4) == c0 as u32, "role=old_trunk_untouched");
    } else {
        assert!(fl.head_page() == 1, "role=head_unchanged_when_trunk_has_room");
        assert!(get32(&st.pages[1], HDR + 4) == c0 as u32 + 1, "role=trunk_count_incremented");
        assert!(get32(&st.pages[1], HDR + 8 + 4 * c0) == p, "role=released_page_recorded_as_entry");
        if c0 > 0 { assert!(get32(&st.pages[1], HDR + 8 + 4 * (c0 - 1)) == top, "role=existing_entries_untouched"); }
    }
    // and the next allocation returns a page that is free (the one just released, or the old top entry)
    match alloc_one(&mut fl, &mut st) {
        Some(Some(q)) => { assert!(q == p || (c0 > 0 && q == top) || q == 1, "role=allocated_page_was_free"); assert!(fl.free_count() == fc0, "role=allocate_removes_exactly_one_free_page"); }
        Some(None) => assert!(false, "role=free_count_equals_pages_allocations_return"),
        None => assert!(false, "role=allocate_does_not_error"),
    }
}

// @vt prop=C34 tier=quick feat=sp fs=600 bound="one release + one allocate from ANY valid head trunk holding 0 or 1 entries, released page 2 / 3 with arbitrary prior contents" outside="other entry counts (the code path depends only on empty / has room / full)" timeout=1800 mem=16
vt_proof_fl! { unwind = 3; fn c34_release_step_small() { if kani::any() { release_step(0, 2) } else { release_step(1, 3) } kani::cover!(true, "w:reached_end"); }}
// @vt prop=C34 tier=quick feat=sp fs=600 bound="one release + one allocate from ANY valid head trunk holding 121 entries (one slot left), released page 2" outside="-" timeout=1800 mem=16
vt_proof_fl! { unwind = 3; fn c34_release_step_last_slot() { release_step(TRUNK_MAX_ENTRIES - 1, 2); kani::cover!(true, "w:reached_end"); }}
// @vt prop=C34 tier=quick feat=sp fs=600 bound="one release + one allocate from ANY valid FULL head trunk (122 entries): the released page (3, arbitrary prior contents) becomes the new head trunk" outside="-" timeout=1800 mem=16
vt_proof_fl! { unwind = 3; fn c34_release_step_full_trunk() { release_step(TRUNK_MAX_ENTRIES, 3); kani::cover!(true, "w:full_trunk_boundary"); }}

/// History across the trunk boundary: a FULL head trunk (page 1, 122 entries, the two topmost arbitrary distinct page
/// numbers), release page 3 (arbitrary prior contents; becomes the new, empty head trunk), then three allocations.
fn full_release_then_three_allocs() {
    let mut st = store();
    let top: u32 = kani::any(); let top2: u32 = kani::any();
    kani::assume(top >= 10 && top2 >= 10 && top != top2);
    put32(&mut st.pages[1], HDR, 0); put32(&mut st.pages[1], HDR + 4, TRUNK_MAX_ENTRIES as u32);
    put32(&mut st.pages[1], HDR + 8 + 4 * (TRUNK_MAX_ENTRIES - 1), top);
    put32(&mut st.pages[1], HDR + 8 + 4 * (TRUNK_MAX_ENTRIES - 2), top2);
    let fc0 = TRUNK_MAX_ENTRIES as u32 + 1;
    let mut fl = Freelist::with_head(1, fc0);
    let r = core::mem::ManuallyDrop::new(fl.release(&mut st, 3));
    assert!(r.is_ok(), "role=release_ok");
    assert!(fl.free_count() == fc0 + 1, "role=release_adds_exactly_one_free_page");
    let mut got = [0u32; 3]; let mut n = 0;
    macro_rules! one { () => { match alloc_one(&mut fl, &mut st) { Some(Some(p)) => { got[n] = p; n += 1; } Some(None) => {} None => assert!(false, "role=allocate_does_not_error") } }; }
    one!(); one!(); one!();
    assert!(n == 3, "role=free_count_equals_pages_allocations_return");
    macro_rules! chk { ($i:expr) => {{
        let p = got[$i];
        assert!(p == 3 || p == top || p == top2 || p == 1, "role=allocated_page_was_free");
        // page 1 still carries >= 120 entries: handing it out would make them unreachable
        assert!(p != 1, "role=trunk_still_holding_entries_not_handed_out");
    }}; }
    chk!(0); chk!(1); chk!(2);
    assert!(got[0] != got[1] && got[0] != got[2] && got[1] != got[2], "role=no_page_handed_out_twice");
    assert!(fl.free_count() == fc0 - 2, "role=allocate_removes_exactly_one_free_page");
    assert!(fl.head_page() == 1, "role=head_back_on_old_trunk");
    assert!(get32(&st.pages[1], HDR + 4) == TRUNK_MAX_ENTRIES as u32 - 2, "role=trunk_count_matches_remaining_entries");
    kani::cover!(true, "w:crossed_trunk_boundary_both_ways");
}
// @vt prop=C34 tier=quick feat=sp fs=600 bound="history across the trunk boundary: FULL head trunk (122 entries, the two topmost arbitrary distinct), release page 3 (arbitrary prior contents), then 3 allocations" outside="the other 120 entries are zero bytes (never read by these 3 allocations); longer histories" timeout=1800 mem=16
vt_proof_fl! { unwind = 3; fn c34_full_trunk_release_then_three_allocs() { full_release_then_three_allocs(); }}

/// Alternating history on one trunk: head trunk (page 1) with one arbitrary entry; release 2, allocate, release 3,
/// allocate, allocate — interleaved releases and allocations, pages 2 / 3 with arbitrary prior contents.
fn alternating_history() {
    let mut st = store();
    let top: u32 = kani::any(); kani::assume(top >= 10);
    put_trunk(&mut st.pages[1], 0, 1, &[top]);
    let mut fl = Freelist::with_head(1, 2);
    let mut got = [0u32; 3]; let mut n = 0;
    macro_rules! one { () => { match alloc_one(&mut fl, &mut st) { Some(Some(p)) => { got[n] = p; n += 1; } Some(None) => {} None => assert!(false, "role=allocate_does_not_error") } }; }
    let r1 = core::mem::ManuallyDrop::new(fl.release(&mut st, 2)); assert!(r1.is_ok(), "role=release_ok");
    assert!(fl.free_count() == 3, "role=release_adds_exactly_one_free_page");
    one!();
    assert!(n == 1 && fl.free_count() == 2, "role=allocate_removes_exactly_one_free_page");
    let first = got[0];
    assert!(first == 2 || first == top, "role=allocated_page_was_free");
    let r2 = core::mem::ManuallyDrop::new(fl.release(&mut st, 3)); assert!(r2.is_ok(), "role=release_ok");
    assert!(fl.free_count() == 3, "role=release_adds_exactly_one_free_page");
    one!(); one!();
    assert!(n == 3, "role=free_count_equals_pages_allocations_return");
    assert!(fl.free_count() == 1, "role=allocate_removes_exactly_one_free_page");
    // free set before the last two allocations: {1 (trunk), top, 2, 3} minus `first`
    macro_rules! chk { ($i:expr) => {{ let p = got[$i];
        assert!((p == 2 || p == 3 || p == top || p == 1) && p != first, "role=allocated_page_was_free"); }}; }
    chk!(1); chk!(2);
    assert!(got[1] != got[2], "role=no_page_handed_out_twice");
    kani::cover!(first == 2, "w:lifo_returns_last_released");
}
// @vt prop=C34 tier=quick feat=sp fs=600 bound="alternating history on one trunk holding 1 arbitrary entry: release 2, allocate, release 3, allocate, allocate (pages 2 / 3 with arbitrary prior contents)" outside="longer alternations; more entries" timeout=1800 mem=16
vt_proof_fl! { unwind = 3; fn c34_alternating_release_allocate() { alternating_history(); }}
