//! C20 — arithmetic operators (kernel): `OwnedValue::eval_arithmetic` on every pair of 64-bit integers.
//! Result = the mathematical result when it fits, otherwise "no value" (the callers turn None into NULL / an error);
//! never a wrapped value, never a panic (Kani's overflow / division checks are the "arithmetic-overflow abort" of
//! the statement). The calendar functions of C20 are decided in c41.rs (c20_day_of_week_and_year).
use turdb::types::ArithmeticOp;
use turdb::types::OwnedValue;

fn exact(a: i64, op: ArithmeticOp, b: i64) -> Option<i128> {
    let (a, b) = (a as i128, b as i128);
    match op { ArithmeticOp::Plus => Some(a + b), ArithmeticOp::Minus => Some(a - b), ArithmeticOp::Multiply => Some(a * b),
               ArithmeticOp::Divide => if b == 0 { None } else { Some(a / b) } }
}

fn check(a: i64, op: ArithmeticOp, b: i64) {
    let want = exact(a, op, b);
    let got = OwnedValue::eval_arithmetic(&OwnedValue::Int(a), op, &OwnedValue::Int(b));
    match (want, &got) {
        (Some(w), Some(OwnedValue::Int(g))) => assert!(*g as i128 == w, "role=integer_result_is_exact_not_wrapped"),
        (Some(w), None) => assert!(w > i64::MAX as i128 || w < i64::MIN as i128, "role=representable_result_is_returned"),
        (None, Some(_)) => assert!(false, "role=division_by_zero_yields_no_value"),
        (None, None) => {}
        _ => assert!(false, "role=integer_operands_give_integer_result"),
    }
}

// @vt prop=C20 tier=quick bound="+ and - on every pair of i64" outside="float operands (rounding); the duplicate evaluator in sql/predicate.rs (private)" timeout=1800
vt_proof! { unwind = 2; fn c20_integer_add_sub_all_pairs() {
    let a: i64 = kani::any(); let b: i64 = kani::any();
    let plus: bool = kani::any();
    kani::cover!(plus && a > 0 && b > 0 && (a as i128 + b as i128) > i64::MAX as i128, "w:addition_overflows");
    if plus { check(a, ArithmeticOp::Plus, b) } else { check(a, ArithmeticOp::Minus, b) }
}}

// @vt prop=C20 tier=quick bound="* on every i64 times every i16-range multiplier (symbolic 64x64-bit multiplication does not terminate in CBMC), / of every i64 by every divisor in -3..=3 (incl. 0 and i64::MIN / -1)" outside="multipliers outside the i16 range; other divisors" timeout=1800 mem=16
vt_proof! { unwind = 2; fn c20_integer_mul_div_bounded() {
    let a: i64 = kani::any(); let b: i64 = kani::any();
    let mul: bool = kani::any();
    if mul { kani::assume(b >= i16::MIN as i64 && b <= i16::MAX as i64); } else { kani::assume(b >= -3 && b <= 3); }
    kani::cover!(mul && (a as i128 * b as i128) > i64::MAX as i128, "w:multiplication_overflows");
    kani::cover!(!mul && a == i64::MIN && b == -1, "w:min_divided_by_minus_one");
    kani::cover!(!mul && b == 0, "w:division_by_zero");
    if mul { check(a, ArithmeticOp::Multiply, b) } else { check(a, ArithmeticOp::Divide, b) }
}}

// @vt prop=C20 tier=quick bound="NULL or non-numeric operands: Null/Text with any operator" outside="-" timeout=1800
vt_proof! { unwind = 2; fn c20_arithmetic_null_in_null_out() {
    let a: i64 = kani::any(); let k: u8 = kani::any(); kani::assume(k < 4);
    let op = match k { 0 => ArithmeticOp::Plus, 1 => ArithmeticOp::Minus, 2 => ArithmeticOp::Multiply, _ => ArithmeticOp::Divide };
    assert!(OwnedValue::eval_arithmetic(&OwnedValue::Null, op, &OwnedValue::Int(a)).is_none(), "role=null_operand_yields_no_value");
    assert!(OwnedValue::eval_arithmetic(&OwnedValue::Int(a), op, &OwnedValue::Null).is_none(), "role=null_operand_yields_no_value");
    kani::cover!(k == 3, "w:divide");
}}
