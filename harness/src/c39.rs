//! C39 — the memory budget is a hard limit (src/memory/budget.rs).
//!  * sequential histories: k operations with symbolic (pool, bytes, allocate|release) from the empty budget;
//!  * schedules: thread A's `allocate` with a complete `allocate` of another logical thread spliced in at A's
//!    commit point (between A's reads of the counters and A's compare-exchange) — nested sequentialisation through
//!    a stub of `core::sync::atomic::atomic_compare_exchange_weak` (DESIGN.md section 3.6).
use turdb::memory::{MemoryBudget, Pool};

fn any_pool() -> Pool {
    let k: u8 = kani::any(); kani::assume(k < 5);
    match k { 0 => Pool::Cache, 1 => Pool::Query, 2 => Pool::Recovery, 3 => Pool::Schema, _ => Pool::Shared }
}
fn idx(p: Pool) -> usize { match p { Pool::Cache => 0, Pool::Query => 1, Pool::Recovery => 2, Pool::Schema => 3, Pool::Shared => 4 } }
fn eq5(a: &[usize; 5], b: &[usize; 5]) -> bool { a[0] == b[0] && a[1] == b[1] && a[2] == b[2] && a[3] == b[3] && a[4] == b[4] }
fn used(b: &MemoryBudget) -> [usize; 5] { let s = b.stats(); [s.cache_used, s.query_used, s.recovery_used, s.schema_used, s.shared_used] }

// @vt prop=C39 tier=quick bound="every sequential history of 3 operations (allocate or release, any of the 5 pools, any byte count up to 8 MiB) on a 4 MiB budget" outside="longer histories; concurrent schedules (c39_schedule_*)" timeout=1800
vt_proof! { unwind = 7; fn c39_sequential_history_3() {
    let b = MemoryBudget::with_limit(4 * 1024 * 1024);
    let limit = b.total_limit();
    let mut ghost = [0usize; 5];
    let mut step = 0;
    while step < 3 {
        let p = any_pool(); let n: usize = kani::any(); kani::assume(n <= 8 * 1024 * 1024);
        let is_alloc: bool = kani::any();
        let before = used(&b);
        if is_alloc {
            let r = core::mem::ManuallyDrop::new(b.allocate(p, n));
            if r.is_ok() { ghost[idx(p)] += n; } else { assert!(eq5(&used(&b), &before), "role=failed_allocate_changes_nothing"); }
            kani::cover!(r.is_err() && step == 2, "w:third_allocation_refused");
        } else {
            kani::assume(n <= ghost[idx(p)]); // releases return memory that was allocated
            b.release(p, n);
            ghost[idx(p)] -= n;
        }
        assert!(eq5(&used(&b), &ghost), "role=pool_usage_equals_allocations_minus_releases");
        assert!(b.total_used() <= limit, "role=total_usage_never_exceeds_limit");
        step += 1;
    }
    kani::cover!(ghost[0] > 0 && ghost[4] > 0, "w:two_pools_in_use");
    // release everything
    let mut i = 0;
    let pools = [Pool::Cache, Pool::Query, Pool::Recovery, Pool::Schema, Pool::Shared];
    while i < 5 { b.release(pools[i], ghost[i]); i += 1; }
    assert!(b.total_used() == 0, "role=usage_returns_to_zero_after_releasing_everything");
}}

// ------------------------------------------------------------------------------------------------ schedules
pub static mut ENV_BUDGET: *const MemoryBudget = core::ptr::null();
pub static mut ENV_DEPTH: u8 = 0;
pub static mut ENV_LEFT: u8 = 0;
pub static mut ENV_OK_BYTES: usize = 0;
pub static mut ENV_POOL_SAME: bool = false;
pub static mut A_POOL: u8 = 0;

fn pool_of(k: u8) -> Pool { match k { 0 => Pool::Cache, 1 => Pool::Query, 2 => Pool::Recovery, 3 => Pool::Schema, _ => Pool::Shared } }

/// Yield point at a compare-exchange: before thread A commits, the scheduler may run complete allocations of other
/// logical threads (arbitrary pool / size). Then the compare-exchange itself is performed (sequentially consistent).
pub unsafe fn stub_cas_weak<T: Copy>(dst: *mut T, old: T, new: T, _s: core::sync::atomic::Ordering, _f: core::sync::atomic::Ordering) -> Result<T, T> {
    if ENV_DEPTH == 0 && ENV_LEFT > 0 && kani::any() {
        ENV_LEFT -= 1;
        ENV_DEPTH = 1;
        let k: u8 = kani::any(); kani::assume(k < 5);
        if ENV_POOL_SAME { kani::assume(k == A_POOL); } else { kani::assume(k != A_POOL); }
        let n: usize = kani::any(); kani::assume(n > 0 && n <= 8 * 1024 * 1024);
        let r = core::mem::ManuallyDrop::new((*ENV_BUDGET).allocate(pool_of(k), n));
        if r.is_ok() { ENV_OK_BYTES += n; }
        ENV_DEPTH = 0;
    }
    // the compare-exchange (AtomicUsize: 8 bytes)
    let cur: T = *dst;
    let cur_bits = *(dst as *const u64);
    let old_bits = *(&old as *const T as *const u64);
    if cur_bits == old_bits { *dst = new; Ok(cur) } else { Err(cur) }
}

fn schedule(same_pool: bool, env_ops: u8) {
    let b = MemoryBudget::with_limit(4 * 1024 * 1024);
    let limit = b.total_limit();
    // arbitrary reachable pre-state: some memory already in use in one pool
    let p0 = any_pool();
    let n0: usize = kani::any();
    kani::assume(n0 <= limit);
    unsafe { ENV_LEFT = 0; }
    let r0 = core::mem::ManuallyDrop::new(b.allocate(p0, n0));
    kani::assume(r0.is_ok());
    let base = b.total_used();
    assert!(base <= limit, "role=prestate_within_limit");
    // thread A
    let ka: u8 = kani::any(); kani::assume(ka < 5);
    let na: usize = kani::any(); kani::assume(na > 0 && na <= 8 * 1024 * 1024);
    unsafe { ENV_BUDGET = &b; ENV_DEPTH = 0; ENV_LEFT = env_ops; ENV_OK_BYTES = 0; ENV_POOL_SAME = same_pool; A_POOL = ka; }
    let ra = core::mem::ManuallyDrop::new(b.allocate(pool_of(ka), na));
    let env_bytes = unsafe { ENV_OK_BYTES };
    unsafe { ENV_LEFT = 0; }
    kani::cover!(ra.is_ok() && env_bytes > 0, "w:interference_happened_and_both_succeeded");
    let expect = base + env_bytes + if ra.is_ok() { na } else { 0 };
    assert!(b.total_used() == expect, "role=usage_equals_successful_allocations_under_interleaving");
    assert!(b.total_used() <= limit, "role=total_usage_never_exceeds_limit_under_interleaving");
}

// @vt prop=C39 tier=quick bound="2 threads, same pool: thread A's allocate with one complete allocate of thread B (same pool, any size) at A's commit point; A may retry once (unwind 3); arbitrary one-allocation pre-state; 4 MiB budget" outside="interference between A's individual counter loads; 3+ threads here; weak-memory effects" timeout=1800 mem=16 replay=none
#[cfg(kani)]
#[kani::proof]
#[kani::stub(eyre::capture_handler, crate::common::stub_capture_handler)]
#[kani::stub(alloc::fmt::format, crate::common::stub_format)]
#[kani::stub(<eyre::Report as core::ops::Drop>::drop, crate::common::stub_report_drop)]
#[kani::stub(core::sync::atomic::atomic_compare_exchange_weak, stub_cas_weak)]
#[kani::unwind(4)]
pub fn c39_schedule_same_pool() { schedule(true, 1); }

// @vt prop=C39 tier=quick bound="2 threads, different pools: thread A's allocate with one complete allocate of thread B (another pool, any size) at A's commit point; arbitrary one-allocation pre-state; 4 MiB budget" outside="interference between A's individual counter loads; weak-memory effects" timeout=1800 mem=16 replay=none manual=known_replays/c39_cross_pool_race.rs
#[cfg(kani)]
#[kani::proof]
#[kani::stub(eyre::capture_handler, crate::common::stub_capture_handler)]
#[kani::stub(alloc::fmt::format, crate::common::stub_format)]
#[kani::stub(<eyre::Report as core::ops::Drop>::drop, crate::common::stub_report_drop)]
#[kani::stub(core::sync::atomic::atomic_compare_exchange_weak, stub_cas_weak)]
#[kani::unwind(3)]
pub fn c39_schedule_cross_pool() { schedule(false, 1); }
