//! C10 — indexes never change query results (key-agreement kernel).
//! Index maintenance writes keys with `Database::encode_value_as_key(&OwnedValue)`. A row is found through an index
//! iff the probe key is byte-identical to (point lookups) or brackets (ranges) the stored key, so every probe-key
//! builder must agree with the write encoder byte for byte:
//!   * the index nested-loop join probe (`Database::encode_index_probe_key`, hook),
//!   * the planner's literal encoders (`sql::planner::encoding::encode_{int,float,text}_to_arena`, hooks), which must
//!     equal `encoding::key::encode_{int,float,text}`.
use crate::common::{lex_cmp, FixBuf};
use core::cmp::Ordering::Equal;
use turdb::database::verif_hooks::{encode_index_probe_key, encode_value_as_key};
use turdb::types::OwnedValue;

/// One value with a CONCRETE variant (so that the encoders' `match` is resolved during symbolic execution) and an
/// arbitrary payload.
fn agree(v: OwnedValue) {
    let mut w = FixBuf::<40>::new();
    encode_value_as_key(&v, &mut w);
    let mut p: Vec<u8> = Vec::with_capacity(48);
    encode_index_probe_key(&v, &mut p);
    assert!(lex_cmp(w.as_slice(), &p) == Equal, "role=index_probe_key_equals_stored_key");
    core::mem::forget((p, v));
}

// @vt prop=C10 tier=quick bound="index probe key vs stored key: Null, Bool, Int, Float, Date, Time, Timestamp with arbitrary payload" outside="other variants (sibling harnesses)" timeout=1800
vt_proof! { unwind = 12; fn c10_probe_key_scalars() {
    agree(OwnedValue::Null); agree(OwnedValue::Bool(kani::any())); agree(OwnedValue::Int(kani::any())); agree(OwnedValue::Float(kani::any()));
    agree(OwnedValue::Date(kani::any())); agree(OwnedValue::Time(kani::any())); agree(OwnedValue::Timestamp(kani::any()));
    kani::cover!(true, "w:reached_end");
}}

// NOTE: MacAddr / Inet4 / Inet6 / Jsonb keys go through the escaped-bytes encoder (every 0x00 / 0xFF byte is expanded),
// so with symbolic bytes the write position in the key buffer is symbolic; the same holds for sequences of floats
// (1-byte vs 9-byte forms). Measured: 16 symbolic bytes / 3 floats exhaust 16-24 GB. The quick tier therefore keeps
// only a few bytes of those payloads symbolic (the rest a fixed non-special filler), the thorough tier has the full ones.

// @vt prop=C10 tier=quick bound="index probe key vs stored key: TimestampTz, Interval, Enum with arbitrary payload" outside="other variants" timeout=1800 mem=16
vt_proof! { unwind = 20; fn c10_probe_key_intervals() {
    agree(OwnedValue::TimestampTz(kani::any(), kani::any())); agree(OwnedValue::Interval(kani::any(), kani::any(), kani::any()));
    agree(OwnedValue::Enum(kani::any(), kani::any()));
    kani::cover!(true, "w:reached_end");
}}

// @vt prop=C10 tier=quick bound="index probe key vs stored key: MacAddr / Inet4 with the first two bytes arbitrary (rest a fixed filler)" outside="fully arbitrary address bytes and Inet6 (thorough)" timeout=1800 mem=16
vt_proof! { unwind = 20; fn c10_probe_key_small_addresses() {
    let (x, y): (u8, u8) = (kani::any(), kani::any());
    agree(OwnedValue::MacAddr([x, y, 0x11, 0x11, 0x11, 0x11])); agree(OwnedValue::Inet4([x, y, 0x11, 0x11]));
    kani::cover!(x == 0 && y == 0xFF, "w:escaped_bytes_in_address");
}}

// @vt prop=C10 tier=quick bound="index probe key vs stored key: Uuid (16 arbitrary bytes)" outside="other variants" timeout=1800 mem=16
vt_proof! { unwind = 20; fn c10_probe_key_uuid() {
    agree(OwnedValue::Uuid(kani::any()));
    kani::cover!(true, "w:reached_end");
}}


// @vt prop=C10 tier=quick bound="index probe key vs stored key: Point with arbitrary f64 payloads" outside="Circle / Box (thorough); Decimal (float division and 10^scale)" timeout=1800 mem=16
vt_proof! { unwind = 20; fn c10_probe_key_point() {
    agree(OwnedValue::Point(kani::any(), kani::any()));
    kani::cover!(true, "w:reached_end");
}}


// @vt prop=C10 tier=quick bound="index probe key vs stored key: Text (ASCII) / Blob / Jsonb / ToastPointer of 0..=2 arbitrary bytes, Vector of 0..=1 f32" outside="longer payloads" timeout=1800
vt_proof! { unwind = 12; fn c10_probe_key_bytes() {
    let d: [u8; 2] = kani::any(); let n: usize = kani::any(); kani::assume(n <= 2);
    if n == 0 { bytes_case(&d, 0) } else if n == 1 { bytes_case(&d, 1) } else { bytes_case(&d, 2) }
    kani::cover!(n == 2, "w:two_bytes");
}}
fn bytes_case(d: &[u8; 2], n: usize) {
    if d[0] < 0x80 && d[1] < 0x80 { agree(OwnedValue::Text(unsafe { String::from_utf8_unchecked(d[..n].to_vec()) })); }
    agree(OwnedValue::Blob(d[..n].to_vec())); agree(OwnedValue::Jsonb(d[..n].to_vec())); agree(OwnedValue::ToastPointer(d[..n].to_vec()));
    let f: f32 = kani::any();
    agree(OwnedValue::Vector(if n == 0 { Vec::new() } else { let mut x = Vec::with_capacity(1); x.push(f); x }));
}



// NOT decided: the planner's literal encoders (`sql::planner::encoding::encode_{int,float,text}_to_arena`) write into a
// bumpalo vector; bumpalo's chunk arithmetic on symbolic addresses exhausts 20 GB for a single `encode_int_to_arena`
// call (measured), so their agreement with `encoding::key::encode_*` is outside this check. Circle / Box (3-4 floats)
// and fully arbitrary Inet6 / MacAddr bytes exhaust 44 GB (symbolic write positions, see the note above).
