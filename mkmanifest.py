#!/usr/bin/env python3
"""Regenerates MANIFEST.json from the table below (single place to edit)."""
import json, subprocess
from pathlib import Path
V = Path(__file__).resolve().parent
NOTE = ("Trusted: Kani 0.68 MIR->goto translation, CBMC 6.11 symbolic execution, CaDiCaL; the harness reference models; "
        "the environment stubs (eyre handler, fmt::format, Report::drop, cpuid CPU model). Claims hold only inside the bounds "
        "listed per harness in the evidence file; unwinding assertions are on, so a too-small bound is reported, not truncated.")
CHECKS = json.loads((V / "manifest_checks.json").read_text())
NA = json.loads((V / "manifest_na.json").read_text())
hooks = subprocess.run(["git", "-C", "/repo", "log", "--format=%H %s", "--grep=^verif hook"], capture_output=True, text=True).stdout.split("\n")
man = {
    "version": 1,
    "setup_cmd": "./vt setup",
    "hooks": {
        "guard": "cargo feature kahflane_turdb_verif (and kahflane_turdb_verif_small_page, which implies it)",
        "enable": "harness/Cargo.toml: turdb = { path = \"/repo\", features = [\"kahflane_turdb_verif\"] }; small-page harnesses add --features sp (-> turdb/kahflane_turdb_verif_small_page, PAGE_SIZE=512)",
        "baseline_off_cmd": "cd /repo && cargo nextest run --workspace --no-fail-fast --test-threads 8 --offline || cargo test --workspace --no-fail-fast --offline",
        "source_commits": [h.split()[0] for h in hooks if h.strip()],
        "add_only": True,
    },
    "engines": [
        {"name": "E1-kani", "path": "vt + harness/", "serves_properties": sorted(CHECKS.keys()),
         "kind_free_text": "bounded model checking of the compiled crate: Kani 0.68 -> CBMC 6.11 -> CaDiCaL, one #[kani::proof] per obligation, counterexamples replayed natively with cargo kani playback"},
    ],
    "checks": [],
    "not_applicable": [{"property_id": k, "reason": v} for k, v in sorted(NA.items())],
    "notes": "See DESIGN.md. Exit codes of every check: 0 held / 1 VIOLATION (replayed natively) / 2 inconclusive (never success).",
}
for pid, c in sorted(CHECKS.items()):
    man["checks"].append({
        "property_id": pid,
        "quick_cmd": f"./vt check {pid} --tier quick",
        "thorough_cmd": f"./vt check {pid} --tier thorough",
        "evidence_file": f"/verif/evidence/{pid}.json",
        "replay_cmd_template": "./vt replay {path}",
        "engine": c.get("engine", "E1-kani"),
        "level_claimed": {"category": "model_checking", "text": c["text"], "design_ref": c.get("design_ref", "DESIGN.md section 5 " + pid)},
        "level_note": c.get("note", NOTE),
        "technique": c.get("technique", "bounded model checking of the real code (Kani/CBMC + SAT), symbolic inputs, differential reference model"),
    })
(V / "MANIFEST.json").write_text(json.dumps(man, indent=1) + "\n")
print("checks:", len(man["checks"]), "n/a:", len(man["not_applicable"]))
